"""C12 - VTIMEZONE is interpreted per RFC 5545 onset rules, same in both providers."""
from datetime import datetime, timedelta, timezone

from hypothesis import assume, strategies as st

from vlib.runner import Failure, Stream, exc_signature
from vlib import sut
from vlib.model import vtz as Z

from icalendar import Calendar, Timezone
from icalendar.timezone import tzp

ID = "C12"
TECHNIQUE = "Hypothesis-generated abstract VTIMEZONE definitions rendered to text and compared, at every onset -1 s / 0 / +1 s, interval midpoints and random instants, with an own RFC 5545 onset interpreter under both providers; model-based histories of parsed calendars for the zone cache"
RULE = ("Definitions (Hypothesis): 1-4 observances, whole-minute offsets -12 h..+14 h, onset spec in {single DTSTART, DTSTART + RDATE list, "
        "yearly BYMONTH + nth-weekday RRULE open-ended / UNTIL (UTC) / COUNT}, TZNAME present (distinct) or absent, custom TZIDs, chained "
        "(FROM = previous TO) and unchained, northern / southern / negative-DST alternations, standard-offset shifts; definitions with "
        "two observances at the same UTC onset are excluded by construction. Instants: every onset -1 s / 0 / +1 s (first 60 and last "
        "20 onsets up to 2037), interval midpoints, generated offsets. Oracle: own onset interpreter (onset = local DTSTART/recurrence - "
        "TZOFFSETFROM; latest onset <= t wins): astimezone(tz) must report utcoffset == TZOFFSETTO, tzname == TZNAME when given, dst == 0 "
        "for STANDARD, with tz = Timezone.from_ical(text).to_tz(tzp, lookup_tzid=False) under both providers. Histories (Hypothesis op "
        "lists): parse calendar k of a pool whose calendars define the same TZID differently, VTIMEZONE before or after the VEVENT, "
        "switch provider; after each parse every zoned DTSTART of that calendar must have the offset its own definition gives. "
        "Non-trivial: definition with >= 2 observances (histories: >= 2 parses); distinct by hash.")
RULE += " Rounds 7-8: extension properties (short and fold-length) inside observances; provider objects of the caller's own of the other kind than the process-wide one; inside the RC-K region the library must answer what dateutil.tz.tzical itself answers."
ASSUMPTIONS = ["all offsets of one definition lie within a span of less than 24 h (datetime.dst()/utcoffset() cannot carry more)",
               "horizon 2037 for open-ended rules (both providers stop there)", "DTSTART of a rule-based observance is the rule's first occurrence"]
REQUIRED_CLASSES = ["style:alternating", "style:rdates", "style:single", "has-until", "has-count", "unchained", "no-tzname", "history", "negative-dst",
                    "history:definition-after-use", "history:same-tzid-defined-differently"]

UTC = timezone.utc


def instants(defn, extra):
    ons = Z.utc_onsets(defn)
    ts = [t for t, _ in ons]
    pick = ts[:60] + ts[-20:] if len(ts) > 80 else ts
    out = set()
    for t in pick:
        out.update((t - timedelta(seconds=1), t, t + timedelta(seconds=1)))
    for a, b in zip(ts[:60], ts[1:61]):
        out.add(a + (b - a) // 2)
    first, last = ts[0], datetime(2037, 12, 31)
    span = int((last - first).total_seconds())
    for e in extra:
        out.add(first + timedelta(seconds=e % max(span, 1)))
    return ons, sorted(t.replace(microsecond=0) for t in out if first <= t <= last)


def classify_instant(defn, ons, t):
    """input-side classification of an instant for the known dateutil deviations (RC-K); see DESIGN.md section 4"""
    tags = []
    maxd = max(abs(o["to"] - o["from"]) for o in defn["obs"])
    maxd = max(maxd, max(abs(a["to"] - b["to"]) for a in defn["obs"] for b in defn["obs"]))
    if any(abs((t - o).total_seconds()) <= maxd for o, _ in ons):
        tags.append("near-onset")
    for i, ob in enumerate(defn["obs"]):
        rr = ob.get("rrule")
        if rr and rr.get("until"):
            tags.append("def-has-until")
            break
    return tags


def plain_alternation(defn):
    """chained positive-DST STANDARD/DAYLIGHT alternation with identical standard offset: the shape real producers emit"""
    obs = defn["obs"]
    if len(obs) != 2 or {o["kind"] for o in obs} != {"STANDARD", "DAYLIGHT"}:
        return False
    s = next(o for o in obs if o["kind"] == "STANDARD")
    d = next(o for o in obs if o["kind"] == "DAYLIGHT")
    if (s.get("rrule") or {}).get("interval") != (d.get("rrule") or {}).get("interval"):
        return False        # an observance that recurs while it is already in effect: its TZOFFSETFROM does not match the chain
    return s["from"] == d["to"] and d["from"] == s["to"] and d["to"] > s["to"] and bool(s.get("rrule")) and bool(d.get("rrule"))


def _representable(defn):
    offs = [o["from"] for o in defn["obs"]] + [o["to"] for o in defn["obs"]]
    return max(offs) - min(offs) < 24 * 3600


def judge(case):
    if case["kind"] == "history":
        return judge_history(case)
    defn = case["def"]
    lines = Z.render(defn)
    if any(ch in defn["tzid"] for ch in ",;"):      # the id is a TEXT value: Outlook-style names carry commas
        lines[1] = "TZID:" + defn["tzid"].replace(",", "\\,").replace(";", "\\;")
    if case.get("xprops"):      # extension properties inside the definition (X-LIC-LOCATION and the like): ignored by the semantics
        lines = lines[:2] + [f"X-LIC-LOCATION:{defn['tzid']}", "X-VERIF;X-P=1:anything"][:min(case["xprops"], 2)] + lines[2:]
        if case["xprops"] >= 3:     # ... and inside the observances, short or long enough to be folded when the library writes them
            n = {3: 5, 4: 75, 5: 76, 6: 77, 7: 200}[case["xprops"]] - len("X-OBS-NOTE:")
            out_ = []
            for ln in lines:
                out_.append(ln)
                if ln in ("BEGIN:STANDARD", "BEGIN:DAYLIGHT"):
                    out_.append("X-OBS-NOTE:" + "n" * max(1, n))
            lines = out_
    text = "\r\n".join(lines) + "\r\n"
    ons, ts = instants(defn, case.get("extra", []))
    fails = []
    plain = plain_alternation(defn)
    has_until = until_read_as_local_time_matters(defn)
    for o in defn["obs"]:
        if o["from"] % 60 or o["to"] % 60 or not -12 * 3600 <= o["from"] <= 14 * 3600 or not -12 * 3600 <= o["to"] <= 14 * 3600 or o["start"][0] < 1583:
            raise ValueError("malformed case: offsets must be whole minutes in -12h..+14h, years >= 1583 (only reachable by shrinking)")
    times = [t for t, _ in Z.utc_onsets(defn)]
    if len(times) != len(set(times)) or not any(o["kind"] == "STANDARD" for o in defn["obs"]):
        raise ValueError("malformed case: coinciding onsets / no STANDARD observance")
    if not _representable(defn):
        raise ValueError("malformed case: offset differences of 24 h or more cannot be carried by datetime.dst()")
    direct = None
    for provider in sut.PROVIDERS:
        sut.reset(provider)
        try:
            if case.get("private_tzp"):
                # a provider object of the caller's own, of the other kind than the process-wide one, is given the definition
                from icalendar.timezone import TZP
                sut.reset("pytz" if provider == "zoneinfo" else "zoneinfo")
                own = TZP(provider)
                own.cache_timezone_component(Timezone.from_ical(text))
                tz = own.timezone(defn["tzid"])
                if tz is None:
                    raise AssertionError("the provider object does not know the zone it was given")
            else:
                tz = Timezone.from_ical(text).to_tz(tzp, lookup_tzid=False)
        except Exception as e:
            fails.append(Failure(f"C12.build/{provider}", f"to_tz-raises/{provider}/" + exc_signature(e), f"{e!r} text={text!r}"[:500]))
            continue
        seen = set()
        for t in ts:
            i = Z.lookup(defn, ons, t)
            if i is None:
                continue
            ob = defn["obs"][i]
            try:
                loc = t.replace(tzinfo=UTC).astimezone(tz)
                got = (loc.utcoffset(), loc.tzname(), loc.dst())
            except Exception as e:
                key = ("raises", provider)
                if key not in seen:
                    seen.add(key)
                    fails.append(Failure(f"C12.offset/{provider}", f"astimezone-raises/{provider}/" + exc_signature(e), f"t={t} {e!r}"[:300]))
                continue
            # input-side localisation of the known dateutil deviations (RC-K): under the zoneinfo provider the definition is
            # handed to dateutil.tz.tzical, which is exact for the shape real producers emit (chained positive-DST
            # STANDARD/DAYLIGHT alternation, open-ended or COUNT) and deviates for everything else
            suffix = ""
            if provider == "zoneinfo" and not plain:
                suffix = "@non-plain-definition"
            elif provider == "zoneinfo" and has_until:
                suffix = "@definition-with-until"
            problems = []
            if got[0] != timedelta(seconds=ob["to"]):
                problems.append(("offset", f"utcoffset {got[0]} expected {timedelta(seconds=ob['to'])}"))
            if ob.get("name") and got[1] != ob["name"]:
                problems.append(("tzname", f"tzname {got[1]!r} expected {ob['name']!r}"))
            if ob["kind"] == "STANDARD" and got[2] not in (timedelta(0),):
                problems.append(("dst", f"dst {got[2]} expected 0 for STANDARD"))
            if problems and suffix:
                # RC-K is "dateutil's own reading of this definition deviates from RFC 5545".  Inside its region the delegation is
                # still checked: the library must answer what dateutil.tz.tzical answers for the plain rendering of the definition;
                # anything else is not the known finding and is reported in full
                try:
                    if direct is None:
                        import io
                        import dateutil.tz
                        direct = dateutil.tz.tzical(io.StringIO("\r\n".join(Z.render(defn)) + "\r\n")).get()
                    ref = t.replace(tzinfo=UTC).astimezone(direct)
                    if (ref.utcoffset(), ref.tzname(), ref.dst()) != got:
                        suffix = ""
                        problems = [(w_, m_ + f" [dateutil itself answers {(ref.utcoffset(), ref.tzname(), ref.dst())!r}]") for w_, m_ in problems]
                except Exception:  # noqa: BLE001 - dateutil refuses the plain rendering: nothing to compare with
                    pass
            for what, msg in problems:
                key = (what, provider, suffix)
                if key in seen:
                    continue
                seen.add(key)
                fails.append(Failure(f"C12.{what}/{provider}{suffix}", f"{what}-differs/{provider}{suffix}",
                                     f"t={t}Z observance #{i} {ob['kind']} from {ob['from']} to {ob['to']}: {msg}; def={defn!r}"[:900]))
    return fails


def until_read_as_local_time_matters(defn):
    """dateutil.tz.tzical drops the Z of a rule's UNTIL and compares it with the local recurrence times: the rule then has other
    onsets than RFC 5545 gives it exactly if some recurrence L lies between UNTIL and UNTIL + TZOFFSETFROM.  (West of Greenwich
    with UNTIL = last onset in UTC, the way producers write it, both readings agree.)"""
    import copy
    for ob in defn["obs"]:
        rr = ob.get("rrule")
        if not rr or not rr.get("until"):
            continue
        u = datetime(*rr["until"])
        free = copy.deepcopy(ob)
        free["rrule"]["until"] = None
        free["rrule"]["count"] = None
        for L in Z.local_onsets(free, u.year + 2):
            if L != datetime(*ob["start"]) and (L <= u) != (L - timedelta(seconds=ob["from"]) <= u):
                return True
    return False


# ----------------------------------------------------------------------------- histories (zone cache)

def cal_text(defn, wall, vtz_first=True, name_case="upper"):
    ev = ["BEGIN:VEVENT", "UID:e", f"DTSTART;TZID={defn['tzid']}:{Z.fmt_dt(wall)}", "END:VEVENT"]
    vt = Z.render(defn)
    body = vt + ev if vtz_first else ev + vt
    return "\r\n".join(["BEGIN:VCALENDAR", "VERSION:2.0", "PRODID:-//verif//c12"] + body + ["END:VCALENDAR"]) + "\r\n"


def expected_offset(defn, wall):
    """offset the definition gives to a local wall time: the observance in effect (wall read in the offset it yields)"""
    ons = Z.utc_onsets(defn)
    naive = datetime(*wall)
    cands = set()
    for ob in defn["obs"]:
        t = naive - timedelta(seconds=ob["to"])
        i = Z.lookup(defn, ons, t)
        if i is not None and defn["obs"][i]["to"] == ob["to"]:
            cands.add(ob["to"])
    return cands


def judge_history(case):
    fails = []
    provider = case["provider0"]
    sut.reset(provider)
    seen_def = {}      # tzid -> index of the calendar whose definition was parsed first in this provider epoch
    for n, op in enumerate(case["ops"]):
        if op[0] == "switch":
            provider = "pytz" if provider == "zoneinfo" else "zoneinfo"
            tzp.use(provider)
            seen_def = {}
            continue
        k, wall, first = op[1], op[2], op[3]
        defn = case["pool"][k % len(case["pool"])]
        text = cal_text(defn, wall, first)
        try:
            cal = Calendar.from_ical(text)
        except Exception as e:
            fails.append(Failure("C12.history", "history-parse-raises/" + exc_signature(e), f"step {n}: {e!r}"[:300]))
            break
        ev = cal.walk("VEVENT")[0]
        if "DTSTART" not in ev:
            fails.append(Failure("C12.history", "history-dtstart-dropped", f"step {n} provider={provider}: errors={ev.errors!r}"[:300]))
            continue
        dt = ev["DTSTART"].dt
        exp = expected_offset(defn, wall)
        if not exp:
            continue    # wall time in a gap of this definition: no expectation
        tag = ""
        prior = seen_def.get(defn["tzid"])
        if prior is not None and case["pool"][prior]["obs"] != defn["obs"]:
            tag = "@same-tzid-defined-earlier"
        elif not first:
            tag = "@definition-after-use"
        seen_def.setdefault(defn["tzid"], k % len(case["pool"]))
        if dt.tzinfo is None:
            fails.append(Failure(f"C12.history{tag}", f"history-dtstart-floating{tag}", f"step {n} provider={provider} vtz_first={first}"))
        elif dt.utcoffset().total_seconds() not in exp:
            fails.append(Failure(f"C12.history{tag}", f"history-offset-from-another-definition{tag}",
                                 f"step {n} provider={provider}: offset {dt.utcoffset()} expected one of {sorted(exp)} (calendar {k % len(case['pool'])})"))
    return fails[:4]


def info(case):
    if case["kind"] == "history":
        classes = ["history"]
        parses = [op for op in case["ops"] if op[0] == "parse"]
        if any(not op[3] for op in parses):
            classes.append("history:definition-after-use")
        if len({op[1] % len(case["pool"]) for op in parses}) >= 2:
            classes.append("history:same-tzid-defined-differently")
        return {"nontrivial": len(parses) >= 2, "classes": classes}
    defn = case["def"]
    classes = ["style:" + case["style"]]
    if case.get("private_tzp"):
        classes.append("own-provider-object-of-the-other-kind")
    if case.get("xprops", 0) >= 4:
        classes.append("folded-extension-property-inside-observance")
    if any(o.get("rrule") and o["rrule"].get("until") for o in defn["obs"]):
        classes.append("has-until")
    if any(o.get("rrule") and o["rrule"].get("count") for o in defn["obs"]):
        classes.append("has-count")
    if any(o.get("rrule") and o["rrule"].get("interval") for o in defn["obs"]):
        classes.append("has-interval")
    if case.get("xprops"):
        classes.append("extension-properties-in-the-definition")
    if len(defn["obs"]) >= 2 and len({o.get("name") for o in defn["obs"]}) == 1 and defn["obs"][0].get("name"):
        classes.append("same-tzname-for-all-observances")
    if any(not o.get("name") for o in defn["obs"]):
        classes.append("no-tzname")
    if case.get("unchained"):
        classes.append("unchained")
    if any(o["kind"] == "DAYLIGHT" and o["to"] < o["from"] for o in defn["obs"]):
        classes.append("negative-dst")
    if plain_alternation(defn):
        classes.append("plain-alternation")
    return {"nontrivial": len(defn["obs"]) >= 2, "classes": classes}


# ----------------------------------------------------------------------------- known-finding regions
def region_zoneinfo_dateutil(case):
    """RC-K: the zoneinfo provider hands the definition to dateutil.tz.tzical.  The instant-level localisation is carried by the
    clause suffix (@near-onset-of-non-plain-definition, @definition-with-until) computed from the input; every definition case is
    in the region."""
    return case["kind"] == "def"


def region_history(case):
    """RC-L: process-wide cache of parsed VTIMEZONEs (first definition of a TZID wins; a definition after its use is ignored);
    localisation by clause suffix (@same-tzid-defined-earlier, @definition-after-use)."""
    return case["kind"] == "history"


REGIONS = {"zoneinfo-dateutil": region_zoneinfo_dateutil, "history-cache": region_history}

# ----------------------------------------------------------------------------- strategies
_off_min = st.integers(-12 * 60, 13 * 60)


def _first_occurrence(year, month, n, wd, hh):
    d = None
    y = year
    while d is None:
        d = Z.nth_weekday(y, month, n, Z.WD.index(wd))
        if d is None:
            y += 1
    return [y, month, d, hh, 0, 0]


@st.composite
def definitions(draw):
    style = draw(st.sampled_from(["alternating", "alternating", "rdates", "single", "mixed"]))
    base = draw(_off_min) * 60
    names = draw(st.booleans())
    unchained = draw(st.integers(0, 4)) == 0
    obs = []
    if style in ("alternating", "mixed"):
        delta = draw(st.sampled_from([3600, 3600, 1800, 7200, -3600]))
        south = draw(st.booleans())
        m_on, m_off = (draw(st.sampled_from([9, 10, 11])), draw(st.sampled_from([3, 4]))) if south else (draw(st.sampled_from([3, 4])), draw(st.sampled_from([9, 10, 11])))
        y0 = draw(st.one_of(st.integers(1970, 2012), st.integers(1970, 2012), st.sampled_from([1601, 1850, 1899, 1900, 1901, 1969])))   # Outlook writes rules that start in 1601
        wd = draw(st.sampled_from(["SU", "SU", "SA", "FR"]))
        n_on, n_off = draw(st.sampled_from([1, 2, -1])), draw(st.sampled_from([1, -1]))
        dst = {"kind": "DAYLIGHT", "from": base, "to": base + delta, "name": "DST" if names else None,
               "start": _first_occurrence(y0, m_on, n_on, wd, draw(st.sampled_from([1, 2, 3]))),
               "rrule": {"bymonth": m_on, "byday": [n_on, wd], "until": None, "count": None}}
        std = {"kind": "STANDARD", "from": base + delta, "to": base, "name": "STD" if names else None,
               "start": _first_occurrence(y0, m_off, n_off, wd, draw(st.sampled_from([2, 3, 4]))),
               "rrule": {"bymonth": m_off, "byday": [n_off, wd], "until": None, "count": None}}
        end = draw(st.sampled_from(["open", "open", "until", "count"]))
        if end == "until":
            yu = draw(st.integers(y0 + 1, 2030))
            for ob in (dst, std):
                occ = _first_occurrence(yu, ob["rrule"]["bymonth"], ob["rrule"]["byday"][0], wd, ob["start"][3])
                u = datetime(*occ) - timedelta(seconds=ob["from"]) + timedelta(seconds=draw(st.sampled_from([0, 0, 3600, -1])))
                ob["rrule"]["until"] = [u.year, u.month, u.day, u.hour, u.minute, u.second]
        elif end == "count":
            dst["rrule"]["count"] = draw(st.integers(1, 12))
            std["rrule"]["count"] = draw(st.integers(1, 12))
        iv = draw(st.sampled_from([None, None, None, None, 2, 3]))
        if iv:      # the whole alternation only every iv-th year (both rules, so the definition stays chained)
            dst["rrule"]["interval"] = std["rrule"]["interval"] = iv
            if draw(st.integers(0, 3)) == 0:
                del std["rrule"]["interval"]     # daylight time in some years only: STANDARD recurs although it is in effect already
        obs = [dst, std]
        if style == "mixed":   # a later standard-offset shift
            ys = draw(st.integers(2031, 2036))
            shift = draw(st.sampled_from([3600, -3600, 1800, 900]))
            obs.append({"kind": "STANDARD", "from": base, "to": base + shift, "name": "NEW" if names else None, "start": [ys, 6, 15, 0, 0, 0]})
            for ob in (dst, std):
                if ob["rrule"]["until"] is None and ob["rrule"]["count"] is None:
                    ob["rrule"]["until"] = [ys - 1, 12, 31, 0, 0, 0]
    elif style == "rdates":
        cur = base
        y = draw(st.integers(1970, 2000))
        for i in range(draw(st.integers(2, 4))):
            nxt = cur + draw(st.sampled_from([3600, -3600, 1800, 7200, -1800]))
            starts = []
            for _ in range(draw(st.integers(1, 3))):
                starts.append([y, draw(st.integers(1, 12)), draw(st.integers(1, 28)), draw(st.integers(0, 23)), 0, 0])
                y += draw(st.integers(1, 3))
            ob = {"kind": "DAYLIGHT" if i % 2 == 0 else "STANDARD", "from": cur, "to": nxt, "name": f"N{i}" if names else None, "start": starts[0], "rdates": starts[1:] or None}
            obs.append(ob)
            cur = nxt
    else:
        cur = base
        y = draw(st.integers(1970, 2020))
        for i in range(draw(st.integers(1, 4))):
            nxt = draw(_off_min) * 60 if draw(st.booleans()) else cur + draw(st.sampled_from([3600, -3600, 1800]))
            obs.append({"kind": draw(st.sampled_from(["STANDARD", "STANDARD", "DAYLIGHT"])), "from": cur, "to": nxt, "name": f"S{i}" if names else None,
                        "start": [y, draw(st.integers(1, 12)), draw(st.integers(1, 28)), draw(st.integers(0, 23)), draw(st.sampled_from([0, 30])), 0]})
            y += draw(st.integers(1, 4))
            cur = nxt
    for ob in obs:
        ob["from"] = max(-12 * 3600, min(14 * 3600, ob["from"]))
        ob["to"] = max(-12 * 3600, min(14 * 3600, ob["to"]))
        if unchained:
            ob["from"] = max(-12 * 3600, min(14 * 3600, ob["from"] + draw(st.sampled_from([0, 3600, -3600, 1800]))))
    if not any(o["kind"] == "STANDARD" for o in obs):
        obs[0]["kind"] = "STANDARD"      # RFC: at least one; and the pytz path needs a standard observance to compute DST deltas
    if names and draw(st.integers(0, 5)) == 0:
        for ob in obs:      # one abbreviation for every observance (e.g. "BST" for British Standard and British Summer Time, "+07")
            ob["name"] = "LOCAL"
    defn = {"tzid": draw(st.sampled_from(["Custom/One", "verif-zone", "X Y", "(UTC+01:00) Amsterdam, Berlin, Bern, Rome, Stockholm, Vienna", "Semi;colon/Zone", "Trailing Space ", "W. Europe Standard Time 1"])), "obs": obs}
    times = [t for t, _ in Z.utc_onsets(defn)]
    assume(len(times) == len(set(times)))
    assume(_representable(defn))
    return {"kind": "def", "style": style, "unchained": unchained, "def": defn,
            "extra": draw(st.lists(st.integers(0, 2 ** 31), max_size=12)), "xprops": draw(st.sampled_from([0, 0, 0, 1, 2, 3, 4, 5, 6, 7])),
            "private_tzp": draw(st.sampled_from([False, False, False, True]))}


@st.composite
def histories(draw):
    # a pool of calendars that define the SAME TZID differently (fixed offsets, so expectations are unambiguous)
    offs = draw(st.lists(st.sampled_from([0, 3600, -18000, 19800, 34200, -12600]), min_size=2, max_size=4, unique=True))
    tzid = draw(st.sampled_from(["Custom/Shared", "Custom/Shared", "/Custom/Shared", "/example.org/2024/Custom/Shared/", "Custom Shared"]))
    # TZIDs are case-sensitive identifiers: some calendars spell the id in another letter case, which makes it a different zone
    def spell(i):
        return [tzid, tzid, tzid.lower(), tzid.upper()][draw(st.integers(0, 3))] if draw(st.booleans()) else tzid
    pool = [{"tzid": spell(i), "obs": [{"kind": "STANDARD", "from": o, "to": o, "name": f"Z{i}", "start": [1970, 1, 1, 0, 0, 0]}]} for i, o in enumerate(offs)]
    wall = [draw(st.integers(1980, 2030)), draw(st.integers(1, 12)), draw(st.integers(1, 28)), 12, 0, 0]
    ops = draw(st.lists(st.one_of(st.tuples(st.just("parse"), st.integers(0, 3), st.just(wall), st.booleans()).map(list),
                                  st.just(["switch"])), min_size=1, max_size=8))
    return {"kind": "history", "provider0": draw(st.sampled_from(["zoneinfo", "pytz"])), "pool": pool, "ops": ops}


def streams(tier):
    n = 400 if tier == "quick" else 6000
    return [Stream("definitions", "hyp", n, 16, definitions, timeout_s=120), Stream("histories", "hyp", n * 2, 8, histories, timeout_s=60)]


LEVEL_TEXT = ("Generated definitions cover every onset form of the statement; each is evaluated at all its onsets +-1 s, midpoints and "
              "random instants against an independent interpreter under both providers; cache behaviour is explored with short "
              "histories over pools of conflicting definitions. Bounded definitions (<= 4 observances) and history length (<= 8).")
