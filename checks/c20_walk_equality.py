"""C20 - Traversal is complete; equality is an order-insensitive equivalence."""
import copy
import pickle

from hypothesis import strategies as st

from vlib.runner import Failure, Stream, exc_signature
from vlib import sut, trees as T

from icalendar import Calendar, Component

ID = "C20"
TECHNIQUE = "Hypothesis-generated component trees built through the API; own pre-order traversal as walk oracle; metamorphic equality relations (permutation / case variants equal, single perturbations unequal, copies equal)"
RULE = ("Hypothesis trees: depth <= 4 (6 in thorough), fan-out <= 4 (wide trees: <= 12), known / repeated / unknown component names, properties of all value "
        "kinds (text without backslashes, ints, dates, floating / UTC / zoned date-times of the active provider, durations, periods, "
        "recur, geo, offsets, uris, categories, date lists) with parameters; both providers. Oracles: walk() is identical (same objects, "
        "same order) to the pre-order list recorded while building; walk(name) for every present name in three letter cases and an "
        "absent name; select predicate; Calendar.events/todos/timezones; a == a; a rebuilt twin, a twin with permuted subcomponents "
        "at every level, permuted insertion order of distinct property names and changed letter case of property names are equal in "
        "both directions; None / int / str / dict / list compare False and != True without raising; one perturbation per case "
        "(component kind, one property value, add / remove / duplicate a subcomponent, swapped multiplicities [x,x,y] vs [x,y,y]) "
        "makes the trees unequal in both directions; deepcopy, pickle and serialise-and-parse copies are equal both ways and "
        "serialise identically. Non-trivial: >= 3 components and a repeated subcomponent name; distinct by hash.")
RULE += ' Rounds 7-8: parents with 8-129 children whose own children are permuted in the twin; one component object at two places of the tree; result lists must not alias the tree.'
ASSUMPTIONS = ["parameter-only differences are not asserted either way", "generated texts contain no backslash (RC-B would change them on serialise-and-parse; C01/C07 own that)"]
REQUIRED_CLASSES = ["custom-zone", "custom-zone:rule-with-interval", "custom-zone:rule-with-count", "custom-zone:rule-with-exdate", "repeated-sub-name", "unknown-component", "perturb:kind", "perturb:value", "perturb:zone", "perturb:add-sub", "perturb:remove-sub", "perturb:dup-sub",
                    "perturb:swap-mult", "root:VCALENDAR", "zoned-value"]


class Bad(Exception):
    def __init__(self, clause, sig, detail=""):
        self.clause, self.sig, self.detail = clause, sig, detail


def eq(a, b):
    """-> True/False or ('raises', name)"""
    try:
        r = a == b
    except Exception as e:  # noqa: BLE001
        return ("raises", exc_signature(e))
    return r


def permuted(tree, keys, off=0):
    """same tree: subcomponents permuted at every level, distinct property names re-ordered (order within a name kept), names re-cased"""
    k = keys or [0]
    subs = [permuted(s, keys, off + 3 * i + 1) for i, s in enumerate(tree["s"])]
    order = sorted(range(len(subs)), key=lambda i: (k[(off + i) % len(k)], i))
    subs = [subs[i] for i in order]
    names = []
    for p in tree["p"]:
        if p[0].upper() not in names:
            names.append(p[0].upper())
    norder = sorted(range(len(names)), key=lambda i: (k[(off + 7 + i) % len(k)], -i))
    props = []
    for j, i in enumerate(norder):
        for p in tree["p"]:
            if p[0].upper() == names[i]:
                nm = [p[0].upper(), p[0].lower(), p[0].title()][(k[(off + j) % len(k)]) % 3]
                props.append([nm] + p[1:])
    return {"c": tree["c"], "p": props, "s": subs}


def nodes(tree, path=()):
    yield path, tree
    for i, s in enumerate(tree["s"]):
        yield from nodes(s, path + (i,))


def replace_at(tree, path, fn):
    if not path:
        return fn(tree)
    t = dict(tree)
    t["s"] = list(tree["s"])
    t["s"][path[0]] = replace_at(tree["s"][path[0]], path[1:], fn)
    return t


def change_value(spec):
    k = spec["k"]
    s = dict(spec)
    if k in ("text", "uri", "caladdr"):
        s["v"] = spec["v"] + "x"
    elif k == "int":
        s["v"] = spec["v"] + 1
    elif k == "float":
        s["v"] = spec["v"] + 1.0
    elif k in ("date", "naive", "utc", "zoned"):
        v = list(spec["v"])
        v[0] += 1
        s["v"] = v
    elif k == "td":
        s["d"] = spec["d"] + 1
    elif k == "period":
        s["start"] = change_value(spec["start"])
        if "end" in spec:
            s["end"] = change_value(spec["end"])
    elif k == "recur":
        v = dict(spec["v"])
        v["INTERVAL"] = v.get("INTERVAL", 1) + 1
        s["v"] = v
    elif k == "geo":
        s["v"] = [spec["v"][0] + 1.0, spec["v"][1]]
    elif k == "offset":
        s["s"] = spec["s"] + 3600
    elif k == "cats":
        s["v"] = spec["v"] + ["extra"]
    elif k in ("dates", "periods"):
        s["v"] = [change_value(spec["v"][0])] + spec["v"][1:]
    else:
        raise ValueError(k)
    return s


def _rezone(spec):
    k = spec["k"]
    if k == "zoned":
        return dict(spec, tz="Asia/Tokyo" if spec["tz"] != "Asia/Tokyo" else "Europe/Berlin")
    if k == "naive":
        return {"k": "zoned", "v": spec["v"], "tz": "Asia/Tokyo"}
    if k == "dates" and spec["v"] and spec["v"][0]["k"] in ("zoned", "naive"):
        return dict(spec, v=[_rezone(d) for d in spec["v"]])
    if k == "period" and spec["start"]["k"] in ("zoned", "naive") and "dur" in spec:
        return dict(spec, start=_rezone(spec["start"]))
    return None


OTHER_KIND = {"VEVENT": "VTODO", "VTODO": "VEVENT", "VJOURNAL": "VEVENT", "VFREEBUSY": "VJOURNAL", "VTIMEZONE": "VEVENT", "STANDARD": "DAYLIGHT",
              "DAYLIGHT": "STANDARD", "VALARM": "VEVENT", "VCALENDAR": "VEVENT"}


def perturb(tree, pert):
    """-> perturbed tree (or a pair of trees for swap-mult) or None if not applicable"""
    ns = list(nodes(tree))
    path, node = ns[pert["node"] % len(ns)]
    kind = pert["kind"]
    if kind == "kind":
        new = OTHER_KIND.get(node["c"].upper(), "X-OTHER-KIND" if node["c"].upper() != "X-OTHER-KIND" else "X-OTHER2")
        return replace_at(tree, path, lambda t: dict(t, c=new))
    if kind == "value":
        if not node["p"]:
            return None
        j = pert["idx"] % len(node["p"])
        def f(t):
            ps = [list(p) for p in t["p"]]
            ps[j][1] = change_value(ps[j][1])
            return dict(t, p=ps)
        return replace_at(tree, path, f)
    if kind == "zone":      # same wall-clock fields, another zone (or floating -> zoned): a different value
        cands = [j for j, p in enumerate(node["p"]) if _rezone(p[1]) is not None]
        if not cands:
            return None
        j = cands[pert["idx"] % len(cands)]
        def f(t):
            ps = [list(p) for p in t["p"]]
            ps[j][1] = _rezone(ps[j][1])
            return dict(t, p=ps)
        return replace_at(tree, path, f)
    if kind == "add-sub":
        return replace_at(tree, path, lambda t: dict(t, s=t["s"] + [{"c": "VALARM", "p": [["ACTION", {"k": "text", "v": "DISPLAY"}]], "s": []}]))
    if kind == "remove-sub":
        if not node["s"]:
            return None
        j = pert["idx"] % len(node["s"])
        return replace_at(tree, path, lambda t: dict(t, s=t["s"][:j] + t["s"][j + 1:]))
    if kind == "dup-sub":
        if not node["s"]:
            return None
        j = pert["idx"] % len(node["s"])
        return replace_at(tree, path, lambda t: dict(t, s=t["s"] + [t["s"][j]]))
    if kind == "swap-mult":
        x = {"c": "VEVENT", "p": [["SUMMARY", {"k": "text", "v": "x"}]], "s": []}
        y = {"c": "VEVENT", "p": [["SUMMARY", {"k": "text", "v": "y"}]], "s": []}
        a = replace_at(tree, path, lambda t: dict(t, s=t["s"] + [x, x, y]))
        b = replace_at(tree, path, lambda t: dict(t, s=t["s"] + [x, y, y]))
        return (a, b)
    raise ValueError(kind)


def judge(case):
    provider = case.get("provider", "zoneinfo")
    sut.reset(provider)
    if case.get("kind") == "custom-zone":
        return judge_custom_zone(case, provider)
    fails = []
    for section in (_traversal, _shared_instance, _traversal_after_edits, _traversal_parsed, _equality, _non_components, _perturbation, _copies):
        try:
            section(case, provider)
        except Bad as b:
            fails.append(Failure(b.clause, b.sig, b.detail[:500]))
        except Exception as e:
            fails.append(Failure("C20.raises", f"raises/{section.__name__}/" + exc_signature(e), repr(e)[:300]))
    return fails


def _traversal(case, provider):
    tree = case["tree"]
    pre = []
    a = T.build(tree, provider, into=pre)
    # ---- traversal
    w = a.walk()
    if len(w) != len(pre) or any(x is not y for x, y in zip(w, pre)):
        raise Bad("C20.walk", "walk-not-preorder-each-once", f"{[c.name for c in w]!r} vs {[c.name for c in pre]!r}")
    names = sorted({c.name for c in pre})
    for nm in names + ["VNOTPRESENT"]:
        want = [c for c in pre if c.name == nm]
        for variant in (nm, nm.lower(), nm.title()):
            got = a.walk(variant)
            if len(got) != len(want) or any(x is not y for x, y in zip(got, want)):
                raise Bad("C20.walk", "walk-by-name-differs", f"walk({variant!r}) -> {[c.name for c in got]!r}, expected {len(want)}")
    sel = lambda c: "SUMMARY" in c   # noqa: E731
    want = [c for c in pre if "SUMMARY" in c]
    got = a.walk(select=sel)
    if len(got) != len(want) or any(x is not y for x, y in zip(got, want)):
        raise Bad("C20.walk", "walk-select-differs", f"{len(got)} vs {len(want)}")
    if names:
        nm = names[0]
        want = [c for c in pre if c.name == nm and "SUMMARY" in c]
        got = a.walk(nm.lower(), select=sel)
        if len(got) != len(want) or any(x is not y for x, y in zip(got, want)):
            raise Bad("C20.walk", "walk-name-and-select-differs", nm)

        def only_for_that_kind(c):       # a predicate written for the requested kind (lambda e: e.DTSTART ...) is asked about no other
            if c.name != nm:
                raise RuntimeError(f"predicate for {nm} asked about a {c.name}")
            return "SUMMARY" in c
        try:
            got = a.walk(nm, select=only_for_that_kind)
        except RuntimeError as e:
            raise Bad("C20.walk", "walk-name-and-select-asks-the-predicate-about-other-components", str(e))
        if len(got) != len(want) or any(x is not y for x, y in zip(got, want)):
            raise Bad("C20.walk", "walk-name-and-select-differs", nm)
    if isinstance(a, Calendar):
        for attr, nm in (("events", "VEVENT"), ("todos", "VTODO"), ("timezones", "VTIMEZONE")):
            want = [c for c in pre if c.name == nm]
            got = getattr(a, attr)
            if len(got) != len(want) or any(x is not y for x, y in zip(got, want)):
                raise Bad("C20.accessors", f"accessor-{attr}-differs", f"{len(got)} vs {len(want)}")


def _shared_instance(case, provider):
    """one component OBJECT placed at two places of the tree (the same Alarm added to two events, an event added twice): the tree has
    a node at each place, and every traversal returns each of them"""
    pre = []
    a = T.build(case["tree"], provider, into=pre)
    if len(pre) < 2:
        return
    k = (case.get("perm") or [0])
    child = pre[1 + k[0] % (len(pre) - 1)]
    inside = {id(x) for x in _own_preorder(child)}
    targets = [c for c in pre if id(c) not in inside]
    target = targets[k[-1] % len(targets)]
    target.add_component(child)
    _check_accessors(a, "one-object-at-two-places")
    if a.to_ical().count(b"BEGIN:") != len(_own_preorder(a)):
        raise Bad("C20.walk", "serialisation-and-traversal-disagree/one-object-at-two-places", "")


def _own_preorder(comp):
    out = [comp]
    for s in comp.subcomponents:
        out += _own_preorder(s)
    return out


def _check_accessors(a, when):
    pre = _own_preorder(a)
    w = a.walk()
    if len(w) != len(pre) or any(x is not y for x, y in zip(w, pre)):
        raise Bad("C20.walk", "walk-not-preorder-each-once/" + when, f"{[c.name for c in w]!r} vs {[c.name for c in pre]!r}")
    for nm in sorted({c.name for c in pre} | {"VTIMEZONE", "VEVENT"}):
        want = [c for c in pre if c.name == nm]
        got = a.walk(nm.lower())
        if len(got) != len(want) or any(x is not y for x, y in zip(got, want)):
            raise Bad("C20.walk", "walk-by-name-differs/" + when, f"walk({nm.lower()!r}) -> {len(got)}, expected {len(want)}")
    # a result list belongs to the caller: emptying it must not change the tree or the next answer
    w.clear()
    w2 = a.walk()
    if len(w2) != len(pre) or any(x is not y for x, y in zip(w2, pre)) or _own_preorder(a) != pre:
        raise Bad("C20.walk", "walk-result-aliases-internal-state/" + when, f"{len(w2)} vs {len(pre)} after the first result was emptied")
    if isinstance(a, Calendar):
        for attr, nm in (("events", "VEVENT"), ("todos", "VTODO"), ("timezones", "VTIMEZONE")):
            want = [c for c in pre if c.name == nm]
            first = getattr(a, attr)
            if isinstance(first, list):
                first.clear()
            got = getattr(a, attr)
            if _own_preorder(a) != pre:
                raise Bad("C20.accessors", f"accessor-{attr}-result-aliases-the-tree/" + when, "emptying the returned list changed the tree")
            if len(got) != len(want) or any(x is not y for x, y in zip(got, want)):
                raise Bad("C20.accessors", f"accessor-{attr}-differs/" + when, f"{[str(c.get('UID', c.get('TZID', '?'))) for c in got]!r} vs {[str(c.get('UID', c.get('TZID', '?'))) for c in want]!r}")


def _traversal_after_edits(case, provider):
    """history: the accessors were read, the tree is then edited in place (replace / pop+append / nested add / reorder, with and
    without a change of the number of direct subcomponents), and they are read again: they always describe the tree as it is"""
    a = T.build(case["tree"], provider)
    _check_accessors(a, "fresh")
    keys = list(case["perm"]) + [case["perturb"]["node"], case["perturb"]["idx"]]
    from icalendar import Event, Todo, Timezone
    fresh = [lambda i: _named(Timezone(), "TZID", f"Edit/Zone{i}"), lambda i: _named(Event(), "UID", f"edit-{i}"), lambda i: _named(Todo(), "UID", f"edit-{i}")]
    for step, k in enumerate(keys[:6]):
        comps = _own_preorder(a)
        target = comps[(k * 7 + step) % len(comps)]
        new = fresh[(k + step) % 3](step)
        op = (k + 2 * step) % 5
        subs = target.subcomponents
        if op == 0 and subs:
            subs[k % len(subs)] = new                     # replace in place: same count
        elif op == 1 and subs:
            subs.pop(k % len(subs))
            subs.append(new)                              # pop + append: same count
        elif op == 2:
            target.add_component(new)                     # nested add (the root's direct count only changes if target is the root)
        elif op == 3 and len(subs) >= 2:
            subs.reverse()
        elif subs:
            subs.pop(k % len(subs))
        else:
            target.add_component(new)
        _check_accessors(a, "after-edit")


def _named(comp, key, value):
    comp.add(key, value)
    return comp


def _traversal_parsed(case, provider):
    """the same tree read from text whose component names are written in lower / mixed case"""
    from vlib.model import ical_text as M
    keys = case.get("perm") or [0]

    def recase(t, off=0):
        nm = [t["c"].lower(), t["c"].title(), t["c"].upper(), t["c"]][keys[off % len(keys)] % 4]
        return {"c": nm, "p": [p for p in t["p"] if p[1]["k"] != "text" or "\\" not in p[1]["v"]], "s": [recase(s, off + 1 + i) for i, s in enumerate(t["s"])]}
    tree = recase(case["tree"])
    root = Component.from_ical(M.render(tree))
    names = [n["c"].upper() for n in T.preorder(tree)]
    w = root.walk()
    if [c.name.upper() for c in w] != names:
        raise Bad("C20.walk", "parsed-walk-not-preorder", f"{[c.name for c in w]!r} vs {names!r}")
    for nm in sorted(set(names)):
        for variant in (nm, nm.lower(), nm.title()):
            got = root.walk(variant)
            if len(got) != names.count(nm):
                raise Bad("C20.walk", "parsed-walk-by-name-differs", f"walk({variant!r}) -> {len(got)}, expected {names.count(nm)} (names as parsed: {sorted({c.name for c in w})!r})")


def _equality(case, provider):
    tree = case["tree"]
    a = T.build(tree, provider)
    # ---- equality: reflexive, twin, permuted twin
    if eq(a, a) is not True:
        raise Bad("C20.equality", "not-reflexive", repr(eq(a, a)))
    b = T.build(tree, provider)
    if eq(a, b) is not True or eq(b, a) is not True:
        raise Bad("C20.equality", "rebuilt-twin-unequal", f"{eq(a, b)!r} {eq(b, a)!r}")
    c = T.build(permuted(tree, case.get("perm") or [1, 0, 2]), provider)
    if eq(a, c) is not True or eq(c, a) is not True:
        raise Bad("C20.equality", "permuted-or-recased-twin-unequal", f"{eq(a, c)!r} {eq(c, a)!r}")
    if (a != c) is not False:
        raise Bad("C20.equality", "ne-inconsistent", "")


def _non_components(case, provider):
    a = T.build(case["tree"], provider)
    for x in (None, 5, "VEVENT", {}, [], dict(a), 1.5, object()):
        r = eq(a, x)
        if r is not False:
            raise Bad("C20.non-component", f"eq-non-component/{type(x).__name__}/{r if isinstance(r, bool) else r[1]}", repr(r))
        try:
            ne = a != x
        except Exception as e:  # noqa: BLE001
            raise Bad("C20.non-component", f"ne-non-component-raises/{type(x).__name__}", repr(e))
        if ne is not True:
            raise Bad("C20.non-component", f"ne-non-component/{type(x).__name__}", repr(ne))
        r = eq(x, a)
        if r is not False:
            raise Bad("C20.non-component", f"reflected-eq-non-component/{type(x).__name__}", repr(r))


def _perturbation(case, provider):
    tree = case["tree"]
    a = T.build(tree, provider)
    pert = case.get("perturb")
    if pert:
        pt = perturb(tree, pert)
        if pt is not None:
            if isinstance(pt, tuple):
                x, y = T.build(pt[0], provider), T.build(pt[1], provider)
            else:
                x, y = a, T.build(pt, provider)
            r1, r2 = eq(x, y), eq(y, x)
            if r1 is not False or r2 is not False:
                raise Bad("C20.distinguish", f"perturbation-not-distinguished/{pert['kind']}", f"{r1!r} {r2!r} pert={pert!r}")
            if r1 != r2:
                raise Bad("C20.equality", "not-symmetric", f"{r1!r} {r2!r}")


def _copies(case, provider):
    a = T.build(case["tree"], provider)
    wire = a.to_ical()
    for label, mk in (("deepcopy", lambda: copy.deepcopy(a)), ("pickle", lambda: pickle.loads(pickle.dumps(a))),
                      ("serialise-parse", lambda: Component.from_ical(wire))):
        try:
            cp = mk()
        except Exception as e:  # noqa: BLE001
            raise Bad("C20.copies", f"copy-raises/{label}/" + exc_signature(e), repr(e)[:200])
        r1, r2 = eq(a, cp), eq(cp, a)
        if r1 is not True or r2 is not True:
            raise Bad("C20.copies", f"copy-unequal/{label}", f"{r1!r} {r2!r} {_first_diff(a, cp)}")
        if cp.to_ical() != wire:
            raise Bad("C20.copies", f"copy-serialises-differently/{label}", f"{wire[:200]!r} vs {cp.to_ical()[:200]!r}")


# ----------------------------------------------------------------------------- copies of trees that hold zones built from a VTIMEZONE
def _us_style():
    from checks.c09_parse_invariance import _obs
    return {"c": "VTIMEZONE", "p": [["TZID", {"k": "text", "v": "Custom/US"}]], "s": [
        _obs("DAYLIGHT", [1987, 4, 5, 2, 0, 0], -18000, -14400, "EDT", {"FREQ": "YEARLY", "BYMONTH": [4], "BYDAY": ["1SU"], "UNTIL": [{"k": "utc", "v": [2006, 4, 2, 7, 0, 0]}]}),
        _obs("DAYLIGHT", [2007, 3, 11, 2, 0, 0], -18000, -14400, "EDT", {"FREQ": "YEARLY", "BYMONTH": [3], "BYDAY": ["2SU"]}),
        _obs("STANDARD", [1987, 10, 25, 2, 0, 0], -14400, -18000, "EST", {"FREQ": "YEARLY", "BYMONTH": [10], "BYDAY": ["-1SU"], "UNTIL": [{"k": "utc", "v": [2006, 10, 29, 6, 0, 0]}]}),
        _obs("STANDARD", [2007, 11, 4, 2, 0, 0], -14400, -18000, "EST", {"FREQ": "YEARLY", "BYMONTH": [11], "BYDAY": ["1SU"]})]}


def _var_style(rule):
    """EU-like zone whose DAYLIGHT rule carries generated extra rule parts (INTERVAL, COUNT, WKST): a copy must keep all of them"""
    from checks.c09_parse_invariance import _obs
    r = {"FREQ": "YEARLY", "BYMONTH": [3], "BYDAY": ["-1SU"]}
    for k in ("INTERVAL", "COUNT", "WKST"):
        if rule.get(k.lower()):
            r[k] = [rule[k.lower()]]
    dl = _obs("DAYLIGHT", [2000, 3, 26, 2, 0, 0], 3600, 7200, "VST", r)
    if rule.get("exdate"):      # one recurrence of the daylight rule is excluded: no daylight time that year
        import calendar as _cal
        y = rule["exdate"]
        d = max(w[6] for w in _cal.monthcalendar(y, 3) if w[6])
        dl["p"].append(["EXDATE", {"k": "dates", "v": [{"k": "naive", "v": [y, 3, d, 2, 0, 0]}]}])
    return {"c": "VTIMEZONE", "p": [["TZID", {"k": "text", "v": "Custom/Var"}]], "s": [
        dl,
        _obs("STANDARD", [2000, 10, 29, 3, 0, 0], 7200, 3600, "VT", {"FREQ": "YEARLY", "BYMONTH": [10], "BYDAY": ["-1SU"]})]}


def _zone_defs(case):
    from checks.c09_parse_invariance import VTZ
    defs = dict(VTZ)
    defs["Custom/US"] = _us_style()
    defs["Custom/Var"] = _var_style(case.get("rule") or {})
    return defs


def custom_zone_text(case):
    from vlib.model import ical_text as M
    vt = _zone_defs(case)[case["zone"]]
    evs = []
    for i, w in enumerate(case["walls"]):
        evs.append({"c": "VEVENT", "p": [["UID", {"k": "text", "v": f"u{i}"}], ["DTSTART", {"k": "naive", "v": w}, {"TZID": case["zone"]}],
                                         ["EXDATE", {"k": "dates", "v": [{"k": "naive", "v": w}]}, {"TZID": case["zone"]}]], "s": []})
    tree = {"c": "VCALENDAR", "p": [["VERSION", {"k": "text", "v": "2.0"}]], "s": [vt] + evs}
    return M.render(tree)


def judge_custom_zone(case, provider):
    fails = []
    try:
        a = Calendar.from_ical(custom_zone_text(case))
    except Exception as e:
        return [Failure("C20.raises", "custom-zone-parse-raises/" + exc_signature(e), repr(e)[:300])]
    ea = T.extract(a)
    wire = a.to_ical()
    for label, mk in (("deepcopy", lambda: copy.deepcopy(a)), ("pickle", lambda: pickle.loads(pickle.dumps(a))), ("serialise-parse", lambda: Calendar.from_ical(wire))):
        try:
            cp = mk()
        except Exception as e:  # noqa: BLE001
            # RC-S/pytz is exactly this: deepcopy / pickle of a pytz zone built from a VTIMEZONE raises UnknownTimeZoneError.  Every
            # other failure of a copy under pytz (other exception, unequal or differently serialised copy) keeps the plain clause
            known = "@deepcopy-or-pickle-raises-UnknownTimeZoneError" if provider == "pytz" and label in ("deepcopy", "pickle") and type(e).__name__ == "UnknownTimeZoneError" else ""
            fails.append(Failure(f"C20.copies@custom-zone/{provider}{known}", f"copy-raises@custom-zone/{label}/{provider}/" + exc_signature(e), repr(e)[:200]))
            continue
        r1, r2 = eq(a, cp), eq(cp, a)
        if r1 is not True or r2 is not True:
            # localise: which events differ?  Only if every differing event holds a wall time inside a fold of the definition
            # is this the fold finding (RC-S/fold); any other unequal copy is reported under the plain clause.
            where = ""
            try:
                ea_, ec_ = a.walk("VEVENT"), cp.walk("VEVENT")
                diff = [i for i, (x, y) in enumerate(zip(ea_, ec_)) if eq(x, y) is not True or eq(y, x) is not True]
                if diff and len(ea_) == len(ec_) == len(case["walls"]) and all(_wall_in_fold(case, case["walls"][i]) for i in diff):
                    where = "@fold-wall"
            except Exception:  # noqa: BLE001
                where = ""
            fails.append(Failure(f"C20.copies@custom-zone/{provider}{where}", f"copy-unequal@custom-zone/{label}/{provider}{where}", f"{r1!r} {r2!r}"))
        elif T.extract(cp) != ea:
            fails.append(Failure(f"C20.copies@custom-zone/{provider}", f"copy-has-other-offsets@custom-zone/{label}/{provider}", _first_diff(a, cp)))
        try:
            if cp.to_ical() != wire:
                fails.append(Failure(f"C20.copies@custom-zone/{provider}", f"copy-serialises-differently@custom-zone/{label}/{provider}", ""))
        except Exception as e:  # noqa: BLE001
            fails.append(Failure(f"C20.copies@custom-zone/{provider}", f"copy-to_ical-raises@custom-zone/{label}/{provider}/" + exc_signature(e), repr(e)[:200]))
    return fails


def _first_diff(a, b):
    ea, eb = T.extract(a), T.extract(b)
    if ea == eb:
        return "(extract equal)"
    def walk(x, y, path):
        if x[0] != y[0]:
            return f"{path}: name {x[0]} vs {y[0]}"
        if x[1] != y[1]:
            dx, dy = dict(x[1]), dict(y[1])
            for k in sorted(set(dx) | set(dy)):
                if dx.get(k) != dy.get(k):
                    return f"{path}/{x[0]}: {k}: {dx.get(k)!r} vs {dy.get(k)!r}"
        if len(x[2]) != len(y[2]):
            return f"{path}/{x[0]}: {len(x[2])} vs {len(y[2])} subcomponents"
        for i, (p, q) in enumerate(zip(x[2], y[2])):
            r = walk(p, q, f"{path}/{x[0]}[{i}]")
            if r:
                return r
        return None
    return walk(ea, eb, "") or "?"


def info(case):
    if case.get("kind") == "custom-zone":
        extra = ["custom-zone:rule-with-" + k for k, v in (case.get("rule") or {}).items() if v and case["zone"] == "Custom/Var"]
        return {"nontrivial": True, "classes": ["custom-zone", "custom-zone:" + case["zone"]] + extra}
    tree = case["tree"]
    ns = [n for _, n in nodes(tree)]
    classes = ["root:" + tree["c"].upper()] if tree["c"].upper() in ("VCALENDAR", "VEVENT") else []
    rep = any(len({s["c"].upper() for s in n["s"]}) < len(n["s"]) for n in ns)
    if rep:
        classes.append("repeated-sub-name")
    if any(n["c"].upper() not in T.KNOWN_COMPONENTS for n in ns):
        classes.append("unknown-component")
    if case.get("perturb"):
        classes.append("perturb:" + case["perturb"]["kind"])
    if any(len(n["s"]) > 16 and any(len(k["s"]) >= 2 for k in n["s"]) for n in ns):
        classes.append("more-than-16-siblings-with-children")
    if any(p[1]["k"] == "zoned" or (p[1]["k"] == "dates" and p[1]["v"][0]["k"] == "zoned") for n in ns for p in n["p"]):
        classes.append("zoned-value")
    return {"nontrivial": len(ns) >= 3 and rep, "classes": classes}


def _model_of(vt_tree):
    """C09-style VTIMEZONE tree -> reference-interpreter definition (for the fold predicate)"""
    import re as _re
    obs = []
    for sub in vt_tree["s"]:
        pr = {p[0]: p[1] for p in sub["p"]}
        ob = {"kind": sub["c"], "from": pr["TZOFFSETFROM"]["s"], "to": pr["TZOFFSETTO"]["s"], "name": pr["TZNAME"]["v"], "start": pr["DTSTART"]["v"]}
        if "RDATE" in pr:
            ob["rdates"] = [d["v"] for d in pr["RDATE"]["v"]]
        if "EXDATE" in pr:
            ob["exdates"] = [d["v"] for d in pr["EXDATE"]["v"]]
        if "RRULE" in pr:
            r = pr["RRULE"]["v"]
            m = _re.fullmatch(r"(-?\d+)([A-Z]{2})", r["BYDAY"][0])
            until = r.get("UNTIL")
            ob["rrule"] = {"bymonth": r["BYMONTH"][0], "byday": [int(m.group(1)), m.group(2)], "until": until[0]["v"] if until else None,
                           "count": (r.get("COUNT") or [None])[0], "interval": (r.get("INTERVAL") or [1])[0]}
        obs.append(ob)
    return {"tzid": "x", "obs": obs}


def region_custom_zone_pytz(case):
    """RC-S: zones built from a VTIMEZONE under pytz cannot be pickled / deep-copied (UnknownTimeZoneError)"""
    return case.get("kind") == "custom-zone"


def _wall_in_fold(case, w):
    from datetime import datetime as _dt, timedelta as _td
    from vlib.model import vtz as Z
    m = _model_of(_zone_defs(case)[case["zone"]])
    for ob in m["obs"]:
        d = ob["from"] - ob["to"]
        if d <= 0:
            continue
        for t in Z.local_onsets(ob):
            if t - _td(seconds=d) <= _dt(*w) < t:
                return True
    return False


def region_custom_zone_fold(case):
    """RC-S: under zoneinfo the zone is a dateutil object; a copied date-time whose wall time is ambiguous (inside a fold of the
    definition) compares unequal to the original (PEP 495 inter-zone rule).  Region: some wall time of the case lies in a fold."""
    if case.get("kind") != "custom-zone":
        return False
    from datetime import datetime as _dt, timedelta as _td
    from vlib.model import vtz as Z
    m = _model_of(_zone_defs(case)[case["zone"]])
    for ob in m["obs"]:
        d = ob["from"] - ob["to"]
        if d <= 0:
            continue
        for t in Z.local_onsets(ob):
            for w in case["walls"]:
                if t - _td(seconds=d) <= _dt(*w) < t:
                    return True
    return False


REGIONS = {"custom-zone-pytz": region_custom_zone_pytz, "custom-zone-fold": region_custom_zone_fold}


def _no_tzid_in_vtimezone(tree):
    """A VTIMEZONE with a TZID is *interpreted* (and cached) when parsed, so it would have to be a well-formed definition;
    C12/C04 own that.  Here VTIMEZONE/STANDARD/DAYLIGHT are only names in the tree."""
    t = dict(tree)
    if t["c"].upper() == "VTIMEZONE":
        t["p"] = [p for p in t["p"] if p[0].upper() != "TZID"]
    t["s"] = [_no_tzid_in_vtimezone(s) for s in t["s"]]
    return t


def _hyp(depth, fanout=4):
    def mk():
        return st.fixed_dictionaries({
            "provider": st.sampled_from(["zoneinfo", "pytz"]),
            "tree": st.one_of(T.s_tree(depth, fanout, True), T.s_tree(depth, fanout, True, root="VCALENDAR")).map(_no_tzid_in_vtimezone),
            "perm": st.lists(st.integers(0, 5), min_size=1, max_size=6),
            "perturb": st.fixed_dictionaries({"kind": st.sampled_from(["kind", "value", "value", "zone", "zone", "add-sub", "remove-sub", "dup-sub", "swap-mult"]),
                                              "node": st.integers(0, 30), "idx": st.integers(0, 10)}),
        })
    return mk


@st.composite
def _many_siblings(draw):
    """a parent with many children (around and beyond every plausible batch size), the children having children of their own in an
    order that the permuted twin changes"""
    import copy
    n = draw(st.sampled_from([8, 15, 16, 17, 18, 31, 32, 33, 50, 64, 65, 100, 129]))
    templates = draw(st.lists(T.s_tree(1, 3, True, root="VEVENT").map(_no_tzid_in_vtimezone), min_size=1, max_size=4))
    kids = []
    for i in range(n):
        k = copy.deepcopy(templates[i % len(templates)])
        k["p"] = [p for p in k["p"] if p[0].upper() != "UID"] + [["UID", {"k": "text", "v": f"kid-{i // draw(st.sampled_from([1, 1, 2]))}"}]]
        if len(k["s"]) < 2:
            k["s"] = k["s"] + [{"c": "VALARM", "p": [["ACTION", {"k": "text", "v": "DISPLAY"}], ["DESCRIPTION", {"k": "text", "v": f"first {i}"}]], "s": []},
                               {"c": "VALARM", "p": [["ACTION", {"k": "text", "v": "AUDIO"}]], "s": []}]
        kids.append(k)
    tree = {"c": "VCALENDAR", "p": [["PRODID", {"k": "text", "v": "-//verif//c20"}]], "s": kids}
    return {"provider": draw(st.sampled_from(["zoneinfo", "pytz"])), "tree": tree, "perm": draw(st.lists(st.integers(0, 5), min_size=2, max_size=6)),
            "perturb": {"kind": draw(st.sampled_from(["value", "zone", "add-sub", "remove-sub", "dup-sub", "swap-mult", "kind"])), "node": draw(st.integers(0, 300)), "idx": draw(st.integers(0, 10))}}


def _aim_walls(case):
    """for the generated rule parts add a wall time in the period each of them affects (the summer of the excluded year, of a
    year the INTERVAL skips, of the first year after COUNT ran out)"""
    if case["zone"] != "Custom/Var":
        return case
    r = case.get("rule") or {}
    extra = []
    if r.get("exdate"):
        extra.append([r["exdate"], 7, 1, 12, 0, 0])
    if r.get("interval"):
        extra.append([2001, 7, 1, 12, 0, 0])
    if r.get("count"):
        extra.append([2000 + r["count"] * (r.get("interval") or 1), 7, 1, 12, 0, 0])
    return dict(case, walls=(case["walls"] + extra)[-4:])


def _custom_zone_cases():
    wall = st.tuples(st.integers(1990, 2030), st.integers(1, 12), st.integers(1, 28), st.integers(0, 23), st.sampled_from([0, 30]), st.just(0)).map(list)
    edge = st.sampled_from([[2005, 7, 1, 12, 0, 0], [2010, 11, 3, 12, 0, 0], [2006, 10, 29, 1, 30, 0], [2021, 10, 31, 2, 30, 0], [2021, 3, 28, 2, 30, 0], [2010, 3, 14, 2, 30, 0]])
    return st.fixed_dictionaries({"kind": st.just("custom-zone"), "provider": st.sampled_from(["zoneinfo", "pytz"]),
                                  "zone": st.sampled_from(["Custom/EU", "Custom/Fixed", "Custom/RD", "Custom/US", "Custom/Var", "Custom/Var"]),
                                  "rule": st.fixed_dictionaries({"interval": st.sampled_from([None, 2, 2, 3]), "count": st.sampled_from([None, None, 5, 12]),
                                                                 "wkst": st.sampled_from([None, "SU", "MO"]), "exdate": st.sampled_from([None, None, 2004, 2021, 2010])}),
                                  "walls": st.lists(st.one_of(wall, edge), min_size=1, max_size=4)}).map(_aim_walls)


def streams(tier):
    n = 250 if tier == "quick" else 5000
    return [Stream("custom-zone-copies", "hyp", n // 2, 4, _custom_zone_cases), Stream("trees-wide", "hyp", n // 2, 4, _hyp(1, 12)), Stream("many-siblings-with-children", "hyp", max(10, n // 20), 8, _many_siblings), Stream("trees-shallow", "hyp", n, 8, _hyp(2)), Stream("trees-deep", "hyp", n, 8, _hyp(4 if tier == "quick" else 6))]


LEVEL_TEXT = ("Random trees are built through the API; traversal is compared with the construction order, and equality with a set of "
              "metamorphic relations that need no reference implementation of equality. Tree size and value pools are bounded.")
