"""C19 - Recurrence rules round-trip all parts, FREQ first, same occurrences."""
import itertools
import re
from datetime import date, datetime, timezone

import dateutil.rrule as dr
from hypothesis import strategies as st

from vlib.runner import Failure, Stream, exc_signature, arm, CaseTimeout
from vlib import sut

from icalendar.prop import vRecur, vWeekday, vMonth, vFrequency

ID = "C19"
TECHNIQUE = "Hypothesis-generated rule-part dictionaries; round-trip + RECUR grammar regex + differential occurrence expansion (dateutil rrule(**own mapping) vs rrulestr(encoded text))"
RULE = ("Hypothesis builds rules from every FREQ, COUNT xor UNTIL (date / floating / UTC) or neither, INTERVAL, each BYxxx with "
        "1-4 in-range values (negative where allowed), BYDAY with ordinals +-1..+-53 and '+' spelling, WKST, leap-month "
        "BYMONTH, RSCALE/SKIP; keys in any letter case, scalar or list values, random insertion order, three construction "
        "paths (kwargs, dict, item assignment); plus an exhaustive sweep FREQ x single BYxxx part x boundary values. Oracle: "
        "harness RECUR grammar ([RSCALE=..;]FREQ= first), from_ical(text) has every part with the expected typed values in "
        "the order of the text, re-encoding is byte-identical, and dateutil expands the same first 25 occurrences from "
        "rrule(**own mapping of the supplied parts) as from rrulestr(text) (RSCALE/SKIP/leap-month rules excluded from that "
        "clause and counted). Non-trivial: >= 2 BYxxx parts or an ordinal weekday or UNTIL; distinct by hash.")
RULE += ' Rounds 7-8: zoned UNTIL at repeated and skipped wall times with fold 0/1.'
ASSUMPTIONS = ["dateutil.rrule is the 'standard recurrence expander' of the statement", "UNTIL is a date, a floating date-time or an aware date-time (written in UTC: RFC 5545 gives UNTIL no TZID)"]
REQUIRED_CLASSES = ["has-until", "ordinal-weekday", "leap-month", "rscale", "path:kwargs", "path:dict", "path:setitem", "occurrences-compared"]

FREQS = ["SECONDLY", "MINUTELY", "HOURLY", "DAILY", "WEEKLY", "MONTHLY", "YEARLY"]
DAYS = ["SU", "MO", "TU", "WE", "TH", "FR", "SA"]
INT_PARTS = {"BYSECOND": (0, 60, False), "BYMINUTE": (0, 59, False), "BYHOUR": (0, 23, False), "BYMONTHDAY": (1, 31, True),
             "BYYEARDAY": (1, 366, True), "BYWEEKNO": (1, 53, True), "BYSETPOS": (1, 366, True)}
CANON = ["RSCALE", "FREQ", "UNTIL", "COUNT", "INTERVAL", "BYSECOND", "BYMINUTE", "BYHOUR", "BYDAY", "BYWEEKDAY", "BYMONTHDAY",
         "BYYEARDAY", "BYWEEKNO", "BYMONTH", "BYSETPOS", "WKST", "SKIP"]

_INTLIST = r"[+-]?\d+(,[+-]?\d+)*"
_WD = r"([+-]?\d{1,2})?(SU|MO|TU|WE|TH|FR|SA)"
PART_GRAMMAR = {
    "UNTIL": r"\d{8}(T\d{6}Z?)?", "COUNT": r"\d+", "INTERVAL": r"\d+", "BYSECOND": _INTLIST, "BYMINUTE": _INTLIST, "BYHOUR": _INTLIST,
    "BYDAY": rf"{_WD}(,{_WD})*", "BYWEEKDAY": rf"{_WD}(,{_WD})*", "BYMONTHDAY": _INTLIST, "BYYEARDAY": _INTLIST, "BYWEEKNO": _INTLIST,
    "BYMONTH": r"\d+L?(,\d+L?)*", "BYSETPOS": _INTLIST, "WKST": r"(SU|MO|TU|WE|TH|FR|SA)", "SKIP": r"(OMIT|FORWARD|BACKWARD)",
    "RSCALE": r"[A-Z0-9-]+", "FREQ": "(" + "|".join(FREQS) + ")",
}


def check_grammar(text):
    parts = text.split(";")
    names = [p.split("=", 1)[0] for p in parts]
    if any("=" not in p for p in parts):
        return "part-without-equals"
    if names[0] == "RSCALE":
        if len(names) < 2 or names[1] != "FREQ":
            return "freq-not-first-after-rscale"
    elif names[0] != "FREQ":
        return "freq-not-first"
    if len(set(names)) != len(names):
        return "duplicate-part"
    for p in parts:
        n, v = p.split("=", 1)
        g = PART_GRAMMAR.get(n)
        if g is None:
            return f"unknown-part-{n}"
        if not re.fullmatch(g, v):
            return f"part-value-grammar-{n}"
    return None


# ----------------------------------------------------------------------------- case decoding

def dec_value(key, v):
    """JSON value -> (python value handed to vRecur, expected typed descriptor)"""
    ku = key.upper()
    if ku == "UNTIL":
        if v["k"] == "date":
            d = date(*v["v"])
            return d, ("date", d)
        if v["k"] == "zoned":
            # an aware date-time in a zone other than the UTC object itself (a UTC alias or a real zone): UNTIL has no TZID
            # parameter, so the instant can only be written in UTC
            import zoneinfo as _zi
            d = datetime(*v["v"], tzinfo=_zi.ZoneInfo(v["tz"]), fold=v.get("fold", 0))
            return d, ("datetime", d.astimezone(timezone.utc).replace(tzinfo=None), True)
        d = datetime(*v["v"], tzinfo=timezone.utc if v["k"] == "utc" else None)
        return d, ("datetime", d.replace(tzinfo=None), v["k"] == "utc")
    if ku in ("BYDAY", "BYWEEKDAY", "WKST"):
        m = re.fullmatch(r"([+-]?)(\d{0,2})([A-Za-z]{2})", v)
        rel = int(m.group(2)) if m.group(2) else None
        if rel and m.group(1) == "-":
            rel = -rel
        return v, ("weekday", m.group(3).upper(), rel, v.upper())
    if ku == "BYMONTH":
        if isinstance(v, str):
            return v, ("month", int(v.rstrip("L")), v.endswith("L"))
        return v, ("month", v, False)
    if ku == "FREQ":
        return v, ("str", v.upper())
    if ku in ("RSCALE", "SKIP"):
        return v, ("str", v)
    return v, ("int", v)


def build(case):
    items = []
    expected = {}
    for key, raw in case["parts"]:
        vals = raw if isinstance(raw, list) else [raw]
        pv, ev = [], []
        for v in vals:
            a, b = dec_value(key, v)
            pv.append(a)
            ev.append(b)
        items.append((key, pv if isinstance(raw, list) else pv[0]))
        expected[key.upper()] = ev
    path = case["path"]
    if path == "kwargs":
        r = vRecur(**dict(items))
    elif path == "dict":
        r = vRecur(dict(items))
    else:
        r = vRecur()
        for k, v in items:
            r[k] = v
    return r, expected


def typed_ok(exp, got):
    kind = exp[0]
    if kind == "int":
        return isinstance(got, int) and not isinstance(got, bool) and int(got) == exp[1]
    if kind == "str":
        return isinstance(got, str) and got == exp[1] and str.__str__(got) == exp[1]
    if kind == "weekday":
        return (isinstance(got, vWeekday) and got.weekday == exp[1] and got.relative == exp[2] and str(got) == exp[3])
    if kind == "month":
        return isinstance(got, vMonth) and int(got) == exp[1] and bool(got.leap) == exp[2]
    if kind == "date":
        return type(got) is date and got == exp[1]
    if kind == "datetime":
        if not isinstance(got, datetime) or got.replace(tzinfo=None) != exp[1]:
            return False
        if exp[2]:
            return got.tzinfo is not None and got.utcoffset().total_seconds() == 0
        return got.tzinfo is None
    return False


# ----------------------------------------------------------------------------- dateutil mapping (own)

_DU_FREQ = {f: getattr(dr, f) for f in FREQS}
_DU_DAY = {"MO": dr.MO, "TU": dr.TU, "WE": dr.WE, "TH": dr.TH, "FR": dr.FR, "SA": dr.SA, "SU": dr.SU}


def own_rrule(expected, dtstart):
    kw = {"dtstart": dtstart}
    for k, vals in expected.items():
        if k == "FREQ":
            kw["freq"] = _DU_FREQ[vals[0][1]]
        elif k == "COUNT":
            kw["count"] = vals[0][1]
        elif k == "INTERVAL":
            kw["interval"] = vals[0][1]
        elif k == "UNTIL":
            e = vals[0]
            if e[0] == "date":
                kw["until"] = datetime(e[1].year, e[1].month, e[1].day, tzinfo=dtstart.tzinfo)
            else:
                kw["until"] = e[1].replace(tzinfo=timezone.utc if e[2] else None)
        elif k in ("BYDAY", "BYWEEKDAY"):
            kw.setdefault("byweekday", [])
            kw["byweekday"] += [_DU_DAY[e[1]](e[2]) if e[2] else _DU_DAY[e[1]] for e in vals]
        elif k == "WKST":
            kw["wkst"] = _DU_DAY[vals[0][1]]
        elif k == "BYMONTH":
            kw["bymonth"] = [e[1] for e in vals]
        else:
            kw[k.lower()] = [e[1] for e in vals]
    freq = kw.pop("freq")
    return dr.rrule(freq, **kw)


_DU_ATTRS = ["_freq", "_interval", "_count", "_until", "_wkst", "_bysetpos", "_bymonth", "_bymonthday", "_bynmonthday",
             "_byyearday", "_byeaster", "_byweekno", "_byweekday", "_bynweekday", "_byhour", "_byminute", "_bysecond", "_dtstart"]


def _expand(rule):
    try:
        return list(itertools.islice(rule, 25))
    except Exception as e:   # e.g. BYSECOND=60 (ValueError) or dateutil-internal IndexError: the expander rejects the rule while expanding
        return ("expander-raises", type(e).__name__)


def _du_state(rule):
    return {a: getattr(rule, a, None) for a in _DU_ATTRS}


def judge(case):
    sut.reset()
    fails = []
    try:
        r, expected = build(case)
        enc = r.to_ical()
        if not isinstance(enc, bytes):
            return [Failure("C19.encode", "to_ical-not-bytes", repr(enc)[:80])]
        text = enc.decode("utf-8")
    except Exception as e:
        return [Failure("C19.encode", "encode-raises/" + exc_signature(e), f"{case!r}: {e!r}"[:300])]
    g = check_grammar(text)
    if g:
        fails.append(Failure("C19.grammar", "grammar/" + g, text[:200]))
    names = [p.split("=", 1)[0] for p in text.split(";")]
    if sorted(names) != sorted(expected):
        fails.append(Failure("C19.grammar", "encoded-parts-differ", f"{names!r} vs {sorted(expected)!r}"))
    # canonical relative order of the RFC
    idx = [CANON.index(n) for n in names if n in CANON]
    if idx != sorted(idx):
        fails.append(Failure("C19.grammar", "grammar/not-canonical-order", text[:200]))
    try:
        back = vRecur.from_ical(text)
    except Exception as e:
        fails.append(Failure("C19.decode", "decode-raises/" + exc_signature(e), f"{text!r}: {e!r}"[:300]))
        return fails
    if list(back.keys()) != names:
        fails.append(Failure("C19.decode", "decoded-part-order-or-set-differs", f"text={text!r} keys={list(back.keys())!r}"))
    try:      # handed exactly what to_ical() returned (bytes), the decoder gives what it gives for the same text
        lit = vRecur.from_ical(text.encode("utf-8"))
        if list(lit.keys()) != list(back.keys()) or lit.to_ical() != back.to_ical():
            fails.append(Failure("C19.decode", "decoding-the-bytes-of-to_ical-differs", f"{text!r}: {dict(lit)!r} vs {dict(back)!r}"[:300]))
    except Exception as e:  # noqa: BLE001
        fails.append(Failure("C19.decode", "decoding-the-bytes-of-to_ical-raises/" + exc_signature(e), f"{text!r}: {e!r}"[:300]))
    for k, exp in expected.items():
        got = back.get(k)
        if got is None:
            fails.append(Failure("C19.decode", f"decoded-part-missing/{k}", text[:200]))
            continue
        if not isinstance(got, list):
            got = [got]
        if len(got) != len(exp) or not all(typed_ok(e, g_) for e, g_ in zip(exp, got)):
            fails.append(Failure("C19.decode", f"decoded-typed-value-differs/{k}", f"text={text!r} got={got!r} exp={exp!r}"[:400]))
    try:
        again = back.to_ical()
        if again != enc:
            fails.append(Failure("C19.reencode", "reencode-differs", f"{enc!r} -> {again!r}"[:300]))
    except Exception as e:
        fails.append(Failure("C19.reencode", "reencode-raises/" + exc_signature(e), repr(e)[:200]))
    # occurrences
    if not any(k in expected for k in ("RSCALE", "SKIP")) and not any(e[2] for e in expected.get("BYMONTH", [])):
        until = expected.get("UNTIL")
        aware = bool(until and until[0][0] == "datetime" and until[0][2])
        dtstart = datetime(*case.get("dtstart", [1997, 9, 2, 9, 0, 0]), tzinfo=timezone.utc if aware else None)
        try:
            own = own_rrule(expected, dtstart)
        except (ValueError, TypeError):
            own = None   # the expander rejects the supplied rule itself: nothing to compare
        if own is not None:
            try:
                from_text = dr.rrulestr(text, dtstart=dtstart)
            except Exception as e:
                fails.append(Failure("C19.occurrences", "expander-rejects-encoded-text", f"{text!r}: {e!r}"[:300]))
            else:
                # (1) the expander's own normalised view of the two rules (no expansion needed, always decisive)
                sa, sb = _du_state(own), _du_state(from_text)
                if sa != sb:
                    diff = {k: (sa[k], sb[k]) for k in sa if sa[k] != sb[k]}
                    fails.append(Failure("C19.occurrences", "expander-rule-state-differs", f"text={text!r} diff={diff!r}"[:400]))
                # (2) the first 25 occurrences, under a CPU cap (rules that never match iterate to year 9999)
                # Both sides get the same horizon (dtstart + 6 years unless an earlier UNTIL) so that sparse rules terminate.
                try:
                    arm(0.15)
                    try:
                        horizon = dtstart.replace(year=dtstart.year + 6)
                        ra = own.replace(until=horizon) if (own._until is None or own._until > horizon) else own
                        rb = from_text.replace(until=horizon) if (from_text._until is None or from_text._until > horizon) else from_text
                        a = _expand(ra)
                        b = _expand(rb)
                    finally:
                        arm(5.0)
                except CaseTimeout:
                    a = b = None
                if a != b:
                    fails.append(Failure("C19.occurrences", "occurrences-differ", f"text={text!r} own={a!r} text={b!r}"[:400]))
    return fails


def _compared(case):
    ks = {k.upper() for k, _ in case["parts"]}
    if ks & {"RSCALE", "SKIP"}:
        return False
    for k, v in case["parts"]:
        if k.upper() == "BYMONTH" and any(isinstance(x, str) and x.endswith("L") for x in (v if isinstance(v, list) else [v])):
            return False
    return True


def info(case):
    ks = [k.upper() for k, _ in case["parts"]]
    classes = ["path:" + case["path"]]
    nby = sum(1 for k in ks if k.startswith("BY"))
    ordinal = leap = False
    for k, v in case["parts"]:
        vs = v if isinstance(v, list) else [v]
        if k.upper() in ("BYDAY", "BYWEEKDAY") and any(re.match(r"[+-]?\d", x) for x in vs):
            ordinal = True
        if k.upper() == "BYMONTH" and any(isinstance(x, str) and x.endswith("L") for x in vs):
            leap = True
    if "UNTIL" in ks:
        classes.append("has-until")
    if ordinal:
        classes.append("ordinal-weekday")
    if leap:
        classes.append("leap-month")
    if "RSCALE" in ks:
        classes.append("rscale")
    if _compared(case):
        classes.append("occurrences-compared")
    if any(k != k.upper() for k, _ in case["parts"]):
        classes.append("non-upper-key")
    return {"nontrivial": nby >= 2 or ordinal or "UNTIL" in ks, "classes": classes}


REGIONS = {}

# ----------------------------------------------------------------------------- strategies


def _case_variant(draw, s):
    how = draw(st.sampled_from(["upper", "upper", "lower", "title"]))
    return {"upper": s.upper(), "lower": s.lower(), "title": s.title()}[how]


@st.composite
def rules(draw):
    parts = []
    kw_path = draw(st.sampled_from(["kwargs", "dict", "setitem"]))

    def key(name):
        return _case_variant(draw, name)

    def scalar_or_list(vals):
        if len(vals) == 1 and draw(st.booleans()):
            return vals[0]
        return vals

    freq = draw(st.sampled_from(FREQS))
    parts.append([key("FREQ"), scalar_or_list([_case_variant(draw, freq)])])
    end = draw(st.sampled_from(["none", "none", "count", "until"]))
    if end == "count":
        parts.append([key("COUNT"), scalar_or_list([draw(st.integers(1, 400))])])
    elif end == "until":
        k = draw(st.sampled_from(["date", "floating", "utc", "utc", "zoned"]))
        y, m, d = draw(st.one_of(st.integers(1997, 2030), st.integers(1997, 2030), st.sampled_from([1, 9, 99, 999, 1000, 1601, 9999]))), draw(st.integers(1, 12)), draw(st.integers(1, 28))
        if k == "date":
            v = {"k": "date", "v": [y, m, d]}
        elif k == "zoned" and draw(st.integers(0, 2)) == 0:
            # a wall time that occurs twice (or not at all) in its zone: fold selects the instant
            tz, wall = draw(st.sampled_from([("Europe/Berlin", [2021, 10, 31, 2, 30, 0]), ("Europe/Berlin", [2025, 10, 26, 2, 0, 0]), ("Europe/Berlin", [2025, 10, 26, 2, 59, 59]),
                                             ("America/New_York", [2021, 11, 7, 1, 30, 0]), ("America/New_York", [2024, 11, 3, 1, 15, 0]),
                                             ("Europe/Berlin", [2021, 3, 28, 2, 30, 0]), ("America/New_York", [2024, 3, 10, 2, 30, 0]), ("Australia/Lord_Howe", [2024, 4, 7, 1, 45, 0])]))
            v = {"k": k, "v": wall, "tz": tz, "fold": draw(st.integers(0, 1))}
        elif k == "zoned":
            v = {"k": k, "v": [y, m, d, draw(st.integers(3, 23)), draw(st.integers(0, 59)), draw(st.integers(0, 59))],
                 "tz": draw(st.sampled_from(["Etc/UTC", "Zulu", "Etc/UTC", "Europe/Berlin", "America/New_York", "Asia/Kolkata"]))}
        else:
            v = {"k": k, "v": [y, m, d, draw(st.integers(0, 23)), draw(st.integers(0, 59)), draw(st.integers(0, 59))]}
        parts.append([key("UNTIL"), scalar_or_list([v])])
    if draw(st.booleans()):
        parts.append([key("INTERVAL"), scalar_or_list([draw(st.integers(1, 30))])])
    for name, (lo, hi, neg) in INT_PARTS.items():
        if draw(st.integers(0, 7)) == 0:
            ints = st.integers(lo, hi)
            if neg:
                ints = st.one_of(ints, ints.map(lambda x: -x))
            parts.append([key(name), scalar_or_list(draw(st.lists(ints, min_size=1, max_size=4, unique=True)))])
    if draw(st.integers(0, 2)) == 0:
        def wd():
            day = _case_variant(draw, draw(st.sampled_from(DAYS)))
            if draw(st.booleans()):
                n = draw(st.integers(1, 53))
                sign = draw(st.sampled_from(["", "+", "-"]))
                return f"{sign}{n}{day}"
            return day
        n = draw(st.integers(1, 4))
        vals = []
        for _ in range(n):
            w = wd()
            if w.upper() not in [x.upper() for x in vals] or draw(st.integers(0, 5)) == 0:     # now and then a repeated value
                vals.append(w)
        parts.append([key(draw(st.sampled_from(["BYDAY", "BYDAY", "BYWEEKDAY"]))), scalar_or_list(vals)])
    if draw(st.integers(0, 3)) == 0:
        months = draw(st.lists(st.integers(1, 12), min_size=1, max_size=4, unique=True))
        if draw(st.integers(0, 3)) == 0:
            months = [f"{m}L" if draw(st.booleans()) else (str(m) if draw(st.booleans()) else m) for m in months]
            if draw(st.booleans()):      # a month next to its leap twin (RFC 7529), and a literally repeated value
                m0 = months[0]
                n0 = int(str(m0).rstrip("L"))
                months = months + [n0 if str(m0).endswith("L") else f"{n0}L"] + ([months[-1]] if draw(st.booleans()) else [])
        parts.append([key("BYMONTH"), scalar_or_list(months)])
    if draw(st.integers(0, 3)) == 0:
        parts.append([key("WKST"), scalar_or_list([_case_variant(draw, draw(st.sampled_from(DAYS)))])])
    if draw(st.integers(0, 7)) == 0:
        parts.append([key("RSCALE"), scalar_or_list([draw(st.sampled_from(["GREGORIAN", "CHINESE", "HEBREW", "ISLAMIC-CIVIL"]))])])
        if draw(st.booleans()):
            parts.append([key("SKIP"), scalar_or_list([draw(st.sampled_from(["OMIT", "FORWARD", "BACKWARD"]))])])
    parts = draw(st.permutations(parts))
    case = {"path": kw_path, "parts": [list(p) for p in parts]}
    if draw(st.booleans()):
        case["dtstart"] = [draw(st.integers(1990, 2030)), draw(st.integers(1, 12)), draw(st.integers(1, 28)),
                           draw(st.integers(0, 23)), draw(st.integers(0, 59)), 0]
    return case


def _sweep_cases():
    out = []
    for f in FREQS:
        for name, (lo, hi, neg) in INT_PARTS.items():
            vals = [lo, hi] + ([-lo, -hi] if neg else [])
            for v in vals:
                out.append({"path": "kwargs", "parts": [[name, v], ["FREQ", f]]})
            out.append({"path": "dict", "parts": [[name.lower(), vals], ["freq", f.lower()]]})
        for d in DAYS:
            for n in (None, 1, -1, 5, -5, 53, -53):
                for plus in (False, True):
                    if n is None and plus:
                        continue
                    w = d if n is None else (f"+{n}{d}" if plus and n > 0 else f"{n}{d}")
                    out.append({"path": "setitem", "parts": [["BYDAY", [w]], ["FREQ", f]]})
        for m in range(1, 13):
            out.append({"path": "kwargs", "parts": [["BYMONTH", m], ["FREQ", f]]})
            out.append({"path": "kwargs", "parts": [["BYMONTH", f"{m}L"], ["FREQ", f]]})
    return out


def streams(tier):
    n = 800 if tier == "quick" else 15000
    return [
        Stream("freq-x-part-boundaries", "fixed", 0, 4, _sweep_cases, True, False, timeout_s=5),
        Stream("rules", "hyp", n, 16, rules, timeout_s=5),
    ]


LEVEL_TEXT = ("Generated rule dictionaries cover every rule part, value class, sign, key case and construction path; each is "
              "checked against an independent grammar, typed round-trip expectations and a differential occurrence expansion. "
              "Random sampling of a large space (plus a small exhaustive boundary sweep): strong evidence for per-part codecs, "
              "weaker for rare part combinations.")
