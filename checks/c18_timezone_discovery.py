"""C18 - Used-timezone discovery is complete; adding missing timezones closes it."""
from datetime import date, datetime, timedelta, timezone

from hypothesis import strategies as st

from vlib.runner import Failure, Stream, exc_signature
from vlib import sut, values as V, trees as T

from icalendar import Calendar, Timezone
from icalendar.timezone import tzp

ID = "C18"
TECHNIQUE = "Hypothesis-generated calendars (API-built and re-parsed) with zoned values at any depth and arbitrary pre-existing VTIMEZONEs; own TZID-parameter traversal as oracle; closure and idempotence of add_missing_timezones"
RULE = ("Hypothesis: calendars with VEVENT/VTODO/VJOURNAL/VFREEBUSY and nested VALARMs (depth 1-4) holding zoned values in "
        "DTSTART/DTEND/DUE/RECURRENCE-ID (single), RDATE/EXDATE (lists, several properties of one name), FREEBUSY periods, plus "
        "explicit TZID parameters with ids unknown to the provider, Windows names and '/'-prefixed ids; pre-existing VTIMEZONEs = "
        "any subset of {generated for a used id, generated for an unused id, stub with an unknown id, VTIMEZONE without TZID}; then "
        "1-3 calls of add_missing_timezones(first, last) with a narrow window; API-built and serialise+parse variants; both "
        "providers. Oracle: own recursive traversal collecting every TZID parameter of every value (every entry of multi-valued "
        "properties) == get_used_tzids(), cross-checked against the ids the generator put in; get_missing_tzids() == used - "
        "{TZID of present VTIMEZONEs}; neither raises; after adding, every used id known to the provider has exactly one VTIMEZONE "
        "with that TZID, unknown ids are still missing, repeating the call changes neither the component count nor the bytes. "
        "Non-trivial: >= 2 distinct used ids and >= 1 pre-existing VTIMEZONE; distinct by hash.")
RULE += ' Rounds 7-8: own-zone VTIMEZONEs whose observances carry TZID parameters; class-less components; tuple-valued parameters; default / one-sided / empty / reversed windows of add_missing_timezones.'
ASSUMPTIONS = ["'known to the provider' is decided by tzp.timezone(id) is not None", "pre-existing VTIMEZONEs have pairwise different TZIDs"]
REQUIRED_CLASSES = ["pre:unused", "pre:no-tzid", "pre:used", "unknown-id", "multi-valued", "nested-alarm", "path:parsed", "path:api", "calls>=2", "edited-after-first-query"]

KNOWN = V.ZONES + ["Europe/London", "Asia/Tokyo"]
UNKNOWN = ["Custom/Nowhere", "My-Own-Zone"]
ALIASES = ["/Europe/Berlin", "W. Europe Standard Time", "/softwarestudio.org/Olson_20011030_5/America/New_York"]
WINDOW = (date(2020, 1, 1), date(2021, 6, 1))


def own_used(comp, acc=None):
    """independent traversal: every TZID parameter on any value of any property of any nested component"""
    acc = set() if acc is None else acc
    for name in comp.keys():
        vals = comp[name]
        for v in (vals if isinstance(vals, list) else [vals]):
            params = getattr(v, "params", None)
            if params is not None and "TZID" in params:
                t = params["TZID"]
                for one in (t if isinstance(t, (list, tuple)) else [t]):     # a multi-valued parameter names several ids
                    acc.add(str(one))
    for s in comp.subcomponents:
        own_used(s, acc)
    return acc


def spec_ids(tree):
    """ids the generator put on simple properties (lower bound for the used set)"""
    out = set()
    for n in T.preorder(tree):
        for p in n["p"]:
            spec = p[1]
            if len(p) > 2 and p[2] and "TZID" in p[2]:
                t = p[2]["TZID"]
                out.update(t if isinstance(t, list) else [t])
            if spec["k"] == "zoned":
                out.add(spec["tz"])
            elif spec["k"] == "dates" and spec["v"] and spec["v"][0]["k"] == "zoned":
                out.add(spec["v"][0]["tz"])
            elif spec["k"] == "period" and spec["start"]["k"] == "zoned":
                out.add(spec["start"]["tz"])
    return out


def judge(case):
    provider = case.get("provider", "zoneinfo")
    sut.reset(provider)
    fails = []
    try:
        cal = T.build(case["tree"], provider)
        for pre in case["pre"]:
            if pre["kind"] == "generated":
                cal.add_component(Timezone.from_tzid(pre["tzid"], first_date=WINDOW[0], last_date=WINDOW[1]))
            elif pre["kind"] == "own-zone":
                # a definition of the calendar's own zone whose observances carry properties with TZID parameters (nested components
                # like any other)
                from icalendar import TimezoneDaylight, TimezoneStandard
                tz = Timezone()
                tz.add("TZID", pre["tzid"])
                for cls_, zone_ in ((TimezoneStandard, pre["zones"][0]), (TimezoneDaylight, pre["zones"][-1])):
                    ob = cls_()
                    ob.add("DTSTART", datetime(1970, 1, 1, 2, 0, 0))
                    ob.add("TZOFFSETFROM", timedelta(hours=1))
                    ob.add("TZOFFSETTO", timedelta(hours=1))
                    ob.add("COMMENT", "as in", parameters={"TZID": zone_})
                    tz.add_component(ob)
                cal.add_component(tz)
            elif pre["kind"] == "renamed":
                # a VTIMEZONE that was given a second TZID through the API (add appends): an odd component the queries must survive
                tz = Timezone()
                tz.add("TZID", pre["tzid"])
                tz.add("TZID", pre["tzid"] + "-renamed")
                cal.add_component(tz)
            elif pre["kind"] == "stub":
                tz = Timezone()
                tz.add("TZID", pre["tzid"])
                cal.add_component(tz)
            else:
                cal.add_component(Timezone())
        if case["path"] == "parsed":
            cal = Calendar.from_ical(cal.to_ical())
        elif case.get("tuple_params"):
            # multi-valued parameters given as tuples (written as TZID=A,B like lists)
            for comp_ in cal.walk():
                for nm_ in comp_.keys():
                    for v_ in (comp_[nm_] if isinstance(comp_[nm_], list) else [comp_[nm_]]):
                        pr_ = getattr(v_, "params", None)
                        if pr_ is not None and isinstance(pr_.get("TZID"), list):
                            pr_["TZID"] = tuple(pr_["TZID"])
    except Exception as e:
        return [Failure("C18.build", "build-raises/" + exc_signature(e), repr(e)[:300])]
    present = [str(t["TZID"]) for t in cal.walk("VTIMEZONE") if "TZID" in t]
    want_used = own_used(cal)
    sp = spec_ids(case["tree"])
    if not sp <= want_used:
        fails.append(Failure("C18.used", "generated-zoned-value-without-TZID-parameter", f"{sorted(sp - want_used)!r}"))
    try:
        used = cal.get_used_tzids()
        if set(used) != want_used:
            fails.append(Failure("C18.used", "used-set-differs", f"got {sorted(used)!r} want {sorted(want_used)!r}"))
    except Exception as e:
        fails.append(Failure("C18.queries-never-fail", "get_used_tzids-raises/" + exc_signature(e), repr(e)[:200]))
    want_missing = want_used - set(present)
    try:
        missing = cal.get_missing_tzids()
        if set(missing) != want_missing:
            fails.append(Failure("C18.missing", "missing-set-differs", f"got {sorted(missing)!r} want {sorted(want_missing)!r} present={present!r}"))
    except Exception as e:
        fails.append(Failure("C18.queries-never-fail", "get_missing_tzids-raises/" + exc_signature(e), f"{e!r} present={present!r}"[:300]))
        return fails
    # ---- history: the calendar is edited after it was queried (no component added or removed); the answers follow the tree
    if case.get("edits"):
        try:
            comps = [c for c in cal.walk() if c.name in ("VEVENT", "VTODO", "VJOURNAL")]
            for ed in case["edits"]:
                if not comps:
                    break
                c = comps[ed["node"] % len(comps)]
                if ed["op"] == "set":
                    c.pop("DTSTART", None)
                    c.add("DTSTART", V.dec({"k": "zoned", "v": ed["v"], "tz": ed["tz"]}, provider))
                elif ed["op"] == "exdate":
                    c.add("EXDATE", V.dec({"k": "zoned", "v": ed["v"], "tz": ed["tz"]}, provider))
                elif ed["op"] == "param":
                    c.add("COMMENT", "edited", parameters={"TZID": ed["tz"]})
                else:
                    for nm in ("DTSTART", "DTEND", "DUE", "RDATE", "EXDATE", "RECURRENCE-ID"):
                        c.pop(nm, None)
        except Exception as e:
            return fails + [Failure("C18.build", "edit-raises/" + exc_signature(e), repr(e)[:300])]
        want_used = own_used(cal)
        want_missing = want_used - set(present)
        try:
            used = cal.get_used_tzids()
            if set(used) != want_used:
                fails.append(Failure("C18.used", "used-set-differs-after-edit", f"got {sorted(used)!r} want {sorted(want_used)!r} edits={case['edits']!r}"[:400]))
            missing = cal.get_missing_tzids()
            if set(missing) != want_missing:
                fails.append(Failure("C18.missing", "missing-set-differs-after-edit", f"got {sorted(missing)!r} want {sorted(want_missing)!r}"[:400]))
        except Exception as e:
            fails.append(Failure("C18.queries-never-fail", "query-raises-after-edit/" + exc_signature(e), repr(e)[:200]))
            return fails
    # closure
    snapshots = []
    try:
        kw = {"default": dict(first_date=WINDOW[0], last_date=WINDOW[1]), "none": {}, "first-beyond-default-last": dict(first_date=date(2040, 1, 1)),
              "last-before-default-first": dict(last_date=date(1969, 12, 31)), "equal": dict(first_date=date(2021, 1, 1), last_date=date(2021, 1, 1)),
              "reversed": dict(first_date=date(2022, 1, 1), last_date=date(2021, 1, 1)),
              "aware-datetimes": dict(first_date=datetime(2020, 1, 1, 12, 0, tzinfo=timezone.utc), last_date=datetime(2021, 6, 1, 12, 0, tzinfo=timezone.utc)),
              "naive-datetimes": dict(first_date=datetime(2020, 1, 1, 12, 30), last_date=datetime(2021, 6, 1, 0, 0)),
              "zoned-datetimes": dict(first_date=datetime(2020, 1, 1, tzinfo=__import__("zoneinfo").ZoneInfo("Asia/Tokyo")), last_date=datetime(2021, 6, 1, tzinfo=__import__("zoneinfo").ZoneInfo("America/New_York")))}[case.get("window") or "default"]
        for _ in range(case["calls"]):
            cal.add_missing_timezones(**kw)
            snapshots.append((len(cal.subcomponents), cal.to_ical()))
    except Exception as e:
        fails.append(Failure("C18.closure", "add_missing_timezones-raises/" + exc_signature(e), repr(e)[:300]))
        return fails
    after = [str(t["TZID"]) for t in cal.walk("VTIMEZONE") if "TZID" in t]
    for tzid in sorted(want_used):
        known = tzp.timezone(tzid) is not None
        n = after.count(tzid)
        if known and n != 1:
            fails.append(Failure("C18.closure", "known-id-without-exactly-one-vtimezone", f"{tzid!r}: {n} VTIMEZONEs; all={after!r}"))
        if not known and tzid not in present and n != 0:
            fails.append(Failure("C18.closure", "vtimezone-added-for-unknown-id", f"{tzid!r}"))
    try:
        still = set(cal.get_missing_tzids())
        want_still = {t for t in want_used if tzp.timezone(t) is None and t not in present}
        if still != want_still:
            fails.append(Failure("C18.closure", "missing-after-adding-differs", f"got {sorted(still)!r} want {sorted(want_still)!r}"))
    except Exception as e:
        fails.append(Failure("C18.queries-never-fail", "get_missing_tzids-raises-after-adding/" + exc_signature(e), repr(e)[:200]))
    extra = set(after) - set(present) - want_used
    if extra:
        fails.append(Failure("C18.closure", "vtimezone-added-for-unused-id", f"{sorted(extra)!r}"))
    if len(snapshots) >= 2 and any(s != snapshots[0] for s in snapshots[1:]):
        fails.append(Failure("C18.idempotent", "repeated-call-changes-calendar", f"{[n for n, _ in snapshots]!r}"))
    return fails


def info(case):
    classes = ["path:" + case["path"], "window:" + (case.get("window") or "default")]
    if case.get("tuple_params") and case["path"] == "api":
        classes.append("multi-valued-parameters-as-tuples")
    ids = spec_ids(case["tree"])
    for pre in case["pre"]:
        if pre["kind"] == "own-zone":
            classes.append("pre:own-zone-with-tzid-parameters-in-observances")
        elif pre["kind"] == "none":
            classes.append("pre:no-tzid")
        elif pre["tzid"] in ids:
            classes.append("pre:used")
        else:
            classes.append("pre:unused")
    if ids & set(UNKNOWN):
        classes.append("unknown-id")
    if ids & set(ALIASES):
        classes.append("alias-id")
    if any(p[1]["k"] in ("dates", "periods") for n in T.preorder(case["tree"]) for p in n["p"]):
        classes.append("multi-valued")
    if any(n["c"] == "VALARM" for n in T.preorder(case["tree"])):
        classes.append("nested-alarm")
    if case["calls"] >= 2:
        classes.append("calls>=2")
    if case.get("edits"):
        classes.append("edited-after-first-query")
    return {"nontrivial": len(ids) >= 2 and len(case["pre"]) >= 1, "classes": sorted(set(classes))}


REGIONS = {}

# ----------------------------------------------------------------------------- strategies
_wall = st.tuples(st.integers(2020, 2021), st.integers(1, 12), st.integers(1, 28), st.integers(0, 23), st.sampled_from([0, 30]), st.just(0)).map(list)


@st.composite
def _zprop(draw, comp):
    zone = draw(st.sampled_from(KNOWN))
    names = {"VEVENT": ["DTSTART", "DTEND", "RECURRENCE-ID", "RDATE", "EXDATE"], "VTODO": ["DTSTART", "DUE", "RDATE", "EXDATE", "RECURRENCE-ID"],
             "VJOURNAL": ["DTSTART", "RDATE", "EXDATE"], "VFREEBUSY": ["DTSTART", "DTEND", "FREEBUSY"], "VALARM": ["RECURRENCE-ID", "DTSTART"]}[comp]
    name = draw(st.sampled_from(names))
    how = draw(st.integers(0, 9))
    if how == 0:   # explicit TZID parameter with an id the provider may not know
        tzid = draw(st.sampled_from(UNKNOWN + ALIASES))
        return [name if name not in ("RDATE", "EXDATE", "FREEBUSY") else "DTSTART", {"k": "naive", "v": draw(_wall)}, {"TZID": tzid}]
    if how == 2 and comp != "VALARM":   # a text property whose TZID parameter has several values
        return ["COMMENT", {"k": "text", "v": "multi"}, {"TZID": [draw(st.sampled_from(KNOWN)), draw(st.sampled_from(UNKNOWN + KNOWN))]}]
    if how == 1:
        return [name, {"k": "utc", "v": draw(_wall)}] if name not in ("RDATE", "EXDATE", "FREEBUSY") else ["COMMENT", {"k": "text", "v": "no zone here"}]
    if name in ("RDATE", "EXDATE"):
        return [name, {"k": "dates", "v": [{"k": "zoned", "v": w, "tz": zone} for w in draw(st.lists(_wall, min_size=1, max_size=3))]}]
    if name == "FREEBUSY":
        w = draw(_wall)
        return [name, {"k": "period", "start": {"k": "zoned", "v": w, "tz": zone}, "dur": {"k": "td", "d": 0, "s": 3600}}]
    return [name, {"k": "zoned", "v": draw(_wall), "tz": zone}]


@st.composite
def _comp(draw, depth):
    name = draw(st.sampled_from(["VEVENT", "VEVENT", "VTODO", "VJOURNAL", "VFREEBUSY"]))
    props = draw(st.lists(_zprop(name), max_size=4))
    seen, out = set(), []
    for p in props:
        if p[0] in seen and p[0] not in ("RDATE", "EXDATE", "FREEBUSY", "COMMENT"):
            continue
        seen.add(p[0])
        out.append(p)
    subs = []
    if depth > 0 and draw(st.integers(0, 4)) == 0:      # components the library has no class for (RFC 9073 and extensions)
        subs.append({"c": draw(st.sampled_from(["X-VENUE", "PARTICIPANT", "VLOCATION", "x-lower"])), "p": draw(st.lists(_zprop("VEVENT"), max_size=2, unique_by=lambda p: p[0])), "s": []})
    if name in ("VEVENT", "VTODO") and depth > 0:
        for _ in range(draw(st.integers(0, 2))):
            a = {"c": "VALARM", "p": draw(st.lists(_zprop("VALARM"), max_size=2, unique_by=lambda p: p[0])), "s": []}
            if depth > 1 and draw(st.integers(0, 3)) == 0:
                a["s"] = [draw(_comp(depth - 2))]
            subs.append(a)
    return {"c": name, "p": out, "s": subs}


@st.composite
def cases(draw):
    tree = {"c": "VCALENDAR", "p": [["PRODID", {"k": "text", "v": "-//verif//c18"}]], "s": draw(st.lists(_comp(3), min_size=1, max_size=4))}
    pre = []
    ids = sorted(spec_ids(tree))
    kinds = draw(st.lists(st.sampled_from(["used", "unused", "unknown-stub", "none", "own-zone", "renamed"]), max_size=3, unique=True))
    path = draw(st.sampled_from(["api", "api", "parsed"]))
    for k in kinds:
        if k == "used":
            cand = [i for i in ids if i in KNOWN]
            if cand:
                pre.append({"kind": "generated", "tzid": draw(st.sampled_from(cand))})
        elif k == "unused":
            cand = [z for z in KNOWN if z not in ids]
            if cand:
                pre.append({"kind": "generated", "tzid": draw(st.sampled_from(cand))})
        elif k == "unknown-stub" and path == "api":
            pre.append({"kind": "stub", "tzid": draw(st.sampled_from(UNKNOWN + ["Unused/Stub"]))})
        elif k == "none":
            pre.append({"kind": "none"})
        elif k == "renamed" and path == "api":
            pre.append({"kind": "renamed", "tzid": draw(st.sampled_from(["Own/Renamed", KNOWN[0]]))})
        elif k == "own-zone":
            pre.append({"kind": "own-zone", "tzid": "Own/Zone", "zones": draw(st.lists(st.sampled_from(KNOWN + UNKNOWN[:1]), min_size=1, max_size=2))})
    edits = draw(st.lists(st.fixed_dictionaries({"node": st.integers(0, 5), "op": st.sampled_from(["set", "set", "exdate", "param", "drop"]),
                                                  "v": _wall, "tz": st.sampled_from(KNOWN + UNKNOWN[:1])}), max_size=3))
    edits = [dict(e, tz=e["tz"] if e["op"] == "param" or e["tz"] in KNOWN else KNOWN[0]) for e in edits]
    return {"provider": draw(st.sampled_from(["zoneinfo", "pytz"])), "path": path, "tree": tree, "pre": pre, "calls": draw(st.integers(1, 3)), "edits": edits,
            "tuple_params": draw(st.booleans()), "window": draw(st.sampled_from(["default", "default", "default", "none", "first-beyond-default-last", "last-before-default-first", "equal", "reversed", "aware-datetimes", "naive-datetimes", "zoned-datetimes"]))}


def streams(tier):
    n = 250 if tier == "quick" else 2000
    return [Stream("calendars", "hyp", n, 16, cases, timeout_s=60)]


LEVEL_TEXT = ("Random calendars with every placement of zoned values named in the property and every kind of pre-existing VTIMEZONE are "
              "checked against an independent TZID traversal and the closure/idempotence conditions; VTIMEZONE generation cost bounds "
              "the case count (narrow window).")
