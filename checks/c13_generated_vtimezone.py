"""C13 - A generated VTIMEZONE reproduces the source zone offsets over its window."""
import functools
import zoneinfo
from datetime import date, datetime, timedelta, timezone

import pytz
from hypothesis import strategies as st

from vlib.runner import Failure, Stream, exc_signature
from vlib import sut
from vlib.model import vtz as Z

from icalendar import Timezone
from icalendar.timezone import tzp

ID = "C13"
TECHNIQUE = "Hypothesis over (zone id x date window x provider); the generated VTIMEZONE is read by an own RFC 5545 onset interpreter and converted back, and both are compared with the source zone (tz library ground truth) at every transition -1 s / 0 / +1 s, midpoints and a grid"
RULE = ("Zone ids sampled from all ids known to both tz libraries plus a fixed awkward list (Cairo, Casablanca, Apia, Dublin, Lord_Howe, "
        "Caracas, Tomsk, Kathmandu, ...); windows inside 1970-2038 (first < last, biased to 1-15 years); both providers. Instants: every "
        "ground-truth transition of the source zone inside the window (found by scanning the tz library week by week and bisecting) "
        "-1 s / 0 / +1 s, interval midpoints, a 5-day grid (1-day grid in thorough). Oracle: vt = Timezone.from_tzid(id, tzp, first, last) is "
        "well-formed (TZID, >= 1 observance, each with DTSTART, TZOFFSETFROM, TZOFFSETTO, TZNAME, all onsets inside the window); at "
        "every instant (offset, abbreviation) of the source zone equals (a) the harness's onset interpreter applied to vt and (b) "
        "vt.to_tz(tzp, lookup_tzid=False); (c) from_tzinfo(converted zone, id, first, last) serialises identically to vt. "
        "Non-trivial: the zone has a transition inside the window; distinct by hash.")
RULE += ' Rounds 7-8: a quarter of the windows are 1-366 days long and placed around an offset change; 17 zones renamed while keeping their offsets with windows spanning the rename.'
ASSUMPTIONS = ["ground truth for a provider is that provider's own tz library (zoneinfo / pytz) on the installed tzdata"]
REQUIRED_CLASSES = ["has-transition", "no-transition", "provider:zoneinfo", "provider:pytz", "instant:at-transition", "history:same-id-converted-for-another-window"]

UTC = timezone.utc
AWKWARD = ["Africa/Cairo", "Africa/Casablanca", "Pacific/Apia", "Europe/Dublin", "Australia/Lord_Howe", "America/Caracas", "Asia/Tomsk", "Asia/Kathmandu",
           "Europe/Berlin", "America/New_York", "America/Sao_Paulo", "Asia/Tehran", "Pacific/Kiritimati", "Africa/Windhoek", "Asia/Pyongyang",
           "America/Havana", "Europe/Lisbon", "Antarctica/Troll", "Asia/Gaza", "UTC", "Etc/GMT+5", "Asia/Kolkata", "Pacific/Fiji", "America/Godthab",
           # zones that pass through offset 0 (timedelta(0) is falsy) in either direction
           "Atlantic/Azores", "America/Scoresbysund", "Europe/London", "Atlantic/Canary", "Atlantic/Madeira", "Atlantic/Faroe", "Africa/El_Aaiun",
           # zones that jumped across the date line (offset change of exactly 24 h: equal .seconds)
           "Pacific/Kwajalein", "Pacific/Fakaofo", "Pacific/Kanton", "Pacific/Kiritimati", "Pacific/Apia",
           # the only zone with a sub-minute offset after 1970 (-0:44:30 until 1972-01-07)
           "Africa/Monrovia", "Africa/Monrovia"]


@functools.lru_cache(maxsize=None)
def all_zones():
    z = sorted(set(zoneinfo.available_timezones()) & set(pytz.all_timezones))
    return [x for x in z if x not in ("localtime", "Factory")]


def src_tz(provider, zone):
    return pytz.timezone(zone) if provider == "pytz" else zoneinfo.ZoneInfo(zone)


def truth(tz, t):
    d = t.replace(tzinfo=UTC).astimezone(tz)
    return (d.utcoffset(), d.tzname())


@functools.lru_cache(maxsize=4096)
def transitions(provider, zone):
    """naive UTC instants 1969-2039 at which (utcoffset, tzname) of the provider's zone changes: [(t, off_before, off_after)]"""
    tz = src_tz(provider, zone)
    out = []
    t = datetime(1969, 1, 1)
    end = datetime(2039, 1, 1)
    step = timedelta(days=7)
    prev = truth(tz, t)
    while t < end:
        n = t + step
        k = truth(tz, n)
        if k != prev:
            lo, hi, pk = t, n, prev
            while hi - lo > timedelta(seconds=1):
                mid = (lo + (hi - lo) // 2).replace(microsecond=0)
                if truth(tz, mid) == pk:
                    lo = mid
                else:
                    hi = mid
            kk = truth(tz, hi)
            out.append((hi, int(pk[0].total_seconds()), int(kk[0].total_seconds())))
            if kk != k:      # another change inside the step
                t, prev = hi, kk
                continue
            prev = k
        t = n
    return tuple(out)


def read_component(vt):
    """the generated component in the reference interpreter's format"""
    obs = []
    for sub in vt.subcomponents:
        if sub.name not in ("STANDARD", "DAYLIGHT"):
            continue
        s = sub["DTSTART"].dt
        rd = []
        r = sub.get("RDATE")
        if r is not None:
            for lst in (r if isinstance(r, list) else [r]):
                for d in lst.dts:
                    rd.append([d.dt.year, d.dt.month, d.dt.day, d.dt.hour, d.dt.minute, d.dt.second])
        obs.append({"kind": sub.name, "from": int(sub["TZOFFSETFROM"].td.total_seconds()), "to": int(sub["TZOFFSETTO"].td.total_seconds()),
                    "name": str(sub["TZNAME"]) if "TZNAME" in sub else None, "start": [s.year, s.month, s.day, s.hour, s.minute, s.second], "rdates": rd})
    return {"tzid": str(vt["TZID"]), "obs": obs}


def judge(case):
    provider, zone = case["provider"], case["zone"]
    first, last = date(*case["first"]), date(*case["last"])
    if not first < last or first.year < 1970 or last.year > 2038:
        raise ValueError("malformed case: window must lie inside 1970-2038")
    if case.get("grid_days", 5) < 1:
        raise ValueError("malformed case: grid")
    sut.reset(provider)
    fails = []
    lib = provider
    if case.get("src_lib") == "other":      # the zone object comes from the other tz library than the active provider
        lib = "pytz" if provider == "zoneinfo" else "zoneinfo"
    tz_src = src_tz(lib, zone)
    try:
        if case.get("pre_parse"):
            # history: a calendar that defines '/<zone>' (slash-prefixed IANA id) with a deviating definition was parsed before
            from icalendar import Calendar
            Calendar.from_ical("\r\n".join(["BEGIN:VCALENDAR", "BEGIN:VTIMEZONE", f"TZID:/{zone}", "BEGIN:STANDARD", "DTSTART:19700101T000000",
                                               "TZOFFSETFROM:+0545", "TZOFFSETTO:+0545", "TZNAME:BOGUS", "END:STANDARD", "END:VTIMEZONE", "BEGIN:VEVENT",
                                               f"DTSTART;TZID=/{zone}:20200101T120000", "END:VEVENT", "END:VCALENDAR"]) + "\r\n")
        if case.get("pre_window"):
            # history: the same zone id was generated for another window and converted before, on the same provider object
            try:
                w0, w1 = date(*case["pre_window"][0]), date(*case["pre_window"][1])
                Timezone.from_tzid(zone, tzp, w0, w1).to_tz(tzp, lookup_tzid=False)
            except Exception:  # noqa: BLE001 - only what follows is judged
                pass
        if lib != provider:
            vt = Timezone.from_tzinfo(tz_src, zone, first, last)
        elif case.get("own_tzp"):
            from icalendar.timezone import TZP
            vt = Timezone.from_tzid(zone, TZP(provider), first, last)     # the rarely used explicit provider argument
        else:
            vt = Timezone.from_tzid(zone, tzp, first, last)
    except Exception as e:
        return [Failure("C13.generate", "from_tzid-raises/" + exc_signature(e), f"{case!r}: {e!r}"[:400])]
    # ---- well-formedness
    try:
        if str(vt.get("TZID")) != zone:
            fails.append(Failure("C13.well-formed", "tzid-differs", repr(vt.get("TZID"))))
        subs = [s for s in vt.subcomponents if s.name in ("STANDARD", "DAYLIGHT")]
        if not subs:
            # localisation by input: the two bounding midnights are the same instant in the source zone (the window's first day is a
            # calendar day the zone skipped, Pacific/Fakaofo 2011-12-30), so the window contains no instant at all
            degenerate = ""
            try:
                a_, b_ = datetime(first.year, first.month, first.day), datetime(last.year, last.month, last.day)
                if hasattr(tz_src, "localize") and not tz_src.localize(a_) < tz_src.localize(b_):
                    degenerate = "@window-without-duration/pytz"
            except Exception:  # noqa: BLE001
                pass
            fails.append(Failure("C13.well-formed" + degenerate, "no-observance" + degenerate, f"{zone} {first}..{last}"))
        lo, hi = datetime(first.year, first.month, first.day), datetime(last.year, last.month, last.day)
        for s in subs:
            missing = [k for k in ("DTSTART", "TZOFFSETFROM", "TZOFFSETTO", "TZNAME") if k not in s]
            if missing:
                fails.append(Failure("C13.well-formed", "observance-property-missing", f"{missing!r}"))
                return fails
        defn = read_component(vt)
        for ob in defn["obs"]:
            for w in [ob["start"]] + ob["rdates"]:
                if not lo <= datetime(*w) <= hi:
                    fails.append(Failure("C13.well-formed", "onset-outside-window", f"{w!r} not in [{first}, {last}]"))
                    break
    except Exception as e:
        return fails + [Failure("C13.well-formed", "reading-the-component-raises/" + exc_signature(e), repr(e)[:300])]
    # ---- instants
    all_trs = transitions(lib, zone)
    trs = [x for x in all_trs if lo - timedelta(days=1) <= x[0] - timedelta(seconds=0) and x[0] <= hi + timedelta(days=1)]
    # window in UTC terms: instants t with lo <= local(t) ... keep strictly inside to avoid edge ambiguity
    margin = timedelta(days=2)
    w_lo, w_hi = lo + margin, hi - margin
    pts = set()
    for t, a, b in trs:
        pts.update((t - timedelta(seconds=1), t, t + timedelta(seconds=1)))
        for edge in (t + timedelta(seconds=abs(b - a)), t - timedelta(seconds=abs(b - a))):   # borders of the known-deviation windows
            pts.update((edge - timedelta(seconds=1), edge, edge + timedelta(seconds=1)))
    inner = [t for t, _, _ in trs]
    for x, y in zip(inner, inner[1:]):
        pts.add(x + (y - x) // 2)
    step = timedelta(days=case.get("grid_days", 5))
    g = w_lo
    while g < w_hi:
        pts.add(g)
        g += step
    pts = sorted(p.replace(microsecond=0) for p in pts if w_lo <= p <= w_hi)
    ons = Z.utc_onsets(defn)
    try:
        conv = vt.to_tz(tzp, lookup_tzid=False)
    except Exception as e:
        conv = None
        big = any(abs(b - a) >= 86400 for _, a, b in trs)
        only_dst = not any(s.name == "STANDARD" for s in subs)
        fails.append(Failure("C13.convert" + ("@24h-jump" if big else "@no-standard-observance-in-window" if only_dst else ""),
                             "to_tz-raises/" + exc_signature(e), repr(e)[:300]))
    seen = set()
    big_jump = any(abs(b - a) >= 86400 for _, a, b in trs)
    for t in pts:
        want = truth(tz_src, t)
        tag = classify(lib, trs, t, all_trs=all_trs)
        i = Z.lookup(defn, ons, t)
        if i is None:
            got_a = None
        else:
            ob = defn["obs"][i]
            got_a = (timedelta(seconds=ob["to"]), ob["name"])
        if got_a != want and ("a", tag) not in seen:
            seen.add(("a", tag))
            fails.append(Failure(f"C13.rfc-interpretation{tag}", f"rfc-interpretation-differs{tag}", f"{zone} t={t}Z: component says {got_a!r}, source zone {want!r}"))
        if conv is not None:
            try:
                d = t.replace(tzinfo=UTC).astimezone(conv)
                got_b = (d.utcoffset(), d.tzname())
            except Exception as e:  # noqa: BLE001
                got_b = ("raises", type(e).__name__)
            tag = classify(provider, trs, t, converted=True, all_trs=all_trs)
            if got_b[0] == "raises" and big_jump:
                tag = "@24h-jump"
            if provider == "pytz" and want[0].total_seconds() % 60:
                tag = "@sub-minute-offset"       # RC-AW: pytz zones only hold whole-minute offsets (localised from the source zone's offset)
            if got_b != want and ("b", tag) not in seen:
                seen.add(("b", tag))
                fails.append(Failure(f"C13.converted-zone{tag}", f"converted-zone-differs{tag}", f"{zone} t={t}Z: converted {got_b!r}, source zone {want!r}"))
    # ---- (c) regeneration
    if conv is not None:
        src_dst = lo.replace(tzinfo=UTC).astimezone(tz_src).dst()
        tagc = "@zone-with-transitions" if (any(w_lo - margin <= t <= w_hi + margin for t, _, _ in trs) or src_dst) else ""
        try:
            again = Timezone.from_tzinfo(conv, zone, first, last)
            if lib != provider:
                tagc = tagc or "@zone-with-transitions"      # regenerating from the other library's conversion is not comparable
            if again.to_ical() != vt.to_ical():
                fails.append(Failure(f"C13.regenerate{tagc}", f"regenerated-component-differs{tagc}", _first_diff(vt.to_ical(), again.to_ical())))
                if tagc and lib == provider and not big_jump:      # (a 24 h jump cannot be converted back: RC-M @24h-jump)
                    # inside the region of RC-M the bytes differ for known reasons (DTSTART convention, first observance kind); what
                    # the second generation *means* is still checked: read by the RFC rules it must agree with the source zone at
                    # every instant more than 25 h away from a transition where the first generation agreed
                    defn2 = read_component(again)
                    ons2 = Z.utc_onsets(defn2)
                    for t in pts:
                        if classify(provider, trs, t, converted=True, all_trs=all_trs):
                            continue
                        want = truth(tz_src, t)
                        i1, i2 = Z.lookup(defn, ons, t), Z.lookup(defn2, ons2, t)
                        g1 = None if i1 is None else (timedelta(seconds=defn["obs"][i1]["to"]), defn["obs"][i1]["name"])
                        g2 = None if i2 is None else (timedelta(seconds=defn2["obs"][i2]["to"]), defn2["obs"][i2]["name"])
                        if g1 == want and g2 != want:
                            fails.append(Failure("C13.regenerate-meaning", "regenerated-component-means-something-else", f"{zone} t={t}Z: first generation {g1!r}, second {g2!r}, source zone {want!r}"))
                            break
        except Exception as e:
            fails.append(Failure(f"C13.regenerate{tagc}", f"regenerate-raises{tagc}/" + exc_signature(e), repr(e)[:300]))
    return fails


def classify(provider, trs, t, converted=False, all_trs=None):
    """input-side localisation of the known from_tzinfo deviations (RC-M), from the source zone's ground-truth transitions"""
    for k, (x, a, b) in enumerate(trs):
        d = b - a
        # DTSTART is written in the new offset's wall time: the observance starts (b - a) late (forward change) or, with the
        # absolute scan used for pytz zones, |b - a| early (backward change).  One-sided windows, so the other side of every
        # transition keeps the full oracle.
        if converted and abs((t - x).total_seconds()) <= 25 * 3600:
            # the zone converted back composes two known deviations (the DTSTART convention of from_tzinfo, RC-M, and under zoneinfo
            # dateutil's reading of the component, RC-K); neighbouring transitions interact, so clause (b) is only asserted
            # more than 25 hours away from every transition - clause (a) keeps the exact one-sided windows
            return "@within-a-day-of-a-transition"
        if d > 0 and x <= t < x + timedelta(seconds=d):
            return "@within-offset-change-of-a-transition"
        if d < 0 and (provider == "pytz" or converted) and x - timedelta(seconds=-d) <= t < x:
            # (for the zone converted back under zoneinfo, dateutil's wall-clock lookup starts the observance early as well)
            return "@within-offset-change-of-a-transition"
    # (the excursion may end after the window: the 64-day step of the search lands beyond its end all the same)
    ex = all_trs if all_trs is not None else trs
    for (x, a, b), (y, c, e) in zip(ex, ex[1:]):
        if y - x < timedelta(days=64) and x <= t <= y:
            return "@inside-excursion-shorter-than-64-days"
    # the search compares utcoffset() only: after a change of the abbreviation alone the old name is kept until the next offset change
    prior = [tr for tr in trs if tr[0] <= t]
    for x, a, b in reversed(prior):
        if a != b:
            break
        return "@after-abbreviation-only-change"
    return ""


def _first_diff(a, b):
    la, lb = a.split(b"\r\n"), b.split(b"\r\n")
    for x, y in zip(la, lb):
        if x != y:
            return f"{x[:80]!r} vs {y[:80]!r}"
    return f"{len(la)} vs {len(lb)} lines"


def info(case):
    lo, hi = datetime(*case["first"]), datetime(*case["last"])
    lib = case["provider"] if case.get("src_lib") != "other" else ("pytz" if case["provider"] == "zoneinfo" else "zoneinfo")
    trs = [x for x in transitions(lib, case["zone"]) if lo + timedelta(days=2) <= x[0] <= hi - timedelta(days=2)]
    classes = ["provider:" + case["provider"], "has-transition" if trs else "no-transition"]
    if trs:
        classes.append("instant:at-transition")
    if case.get("pre_window"):
        classes.append("history:same-id-converted-for-another-window")
    return {"nontrivial": bool(trs), "classes": classes}


def region_all(case):
    """RC-M: localisation is carried by the clause suffixes, which are computed from the source zone's ground-truth transitions"""
    return True


REGIONS = {"from-tzinfo": region_all}


RENAMED = [("America/Yakutat", 1982, 8), ("America/Juneau", 1982, 8), ("America/Anchorage", 1982, 8), ("America/Nome", 1982, 8), ("America/Sitka", 1982, 8),
           ("America/Adak", 1982, 8), ("US/Alaska", 1982, 8), ("Asia/Gaza", 1994, 8), ("Asia/Hebron", 1994, 8), ("Europe/Kirov", 2009, 8), ("Europe/Volgograd", 2009, 8),
           ("Europe/Kaliningrad", 2009, 8), ("Europe/Minsk", 2009, 8), ("Africa/Windhoek", 1988, 8), ("Asia/Karachi", 1970, 5), ("Pacific/Guam", 1998, 5),
           ("Antarctica/Troll", 2003, 5)]


@st.composite
def cases(draw, grid_days=5):
    zone = draw(st.one_of(st.sampled_from(all_zones()), st.sampled_from(AWKWARD)))
    y0 = draw(st.integers(1970, 2035))
    span = draw(st.sampled_from([1, 1, 2, 3, 5, 8, 15, 30]))
    if zone in ("Pacific/Kwajalein", "Pacific/Fakaofo", "Pacific/Kanton", "Pacific/Kiritimati", "Pacific/Apia", "Pacific/Enderbury") and draw(st.booleans()):
        y0, span = draw(st.sampled_from([1990, 1992, 2009, 2010])), 5       # a window around the jump across the date line
    if zone == "Africa/Monrovia" and draw(st.booleans()):
        y0, span = 1970, draw(st.sampled_from([1, 3]))
    if draw(st.integers(0, 7)) == 0:
        # zones that were renamed while keeping their offsets (own list, from the tz database): a window from before the rename to
        # years after it - the same pair of offsets carries other abbreviations later on
        zone, y0, span = draw(st.sampled_from(RENAMED))
        span = draw(st.sampled_from([span, span, 15, 30]))
    right = False
    if draw(st.integers(0, 15)) == 0:
        # zones the zoneinfo provider knows beyond the ~600 ids both libraries list: the leap-second variants of the system's tz
        # database (offset changes are not on whole minutes there)
        import os
        if os.path.exists("/usr/share/zoneinfo/right/Europe/Berlin"):
            zone, right = draw(st.sampled_from(["right/Europe/Berlin", "right/America/New_York", "right/Australia/Lord_Howe", "right/Asia/Kolkata"])), True
            y0, span = draw(st.integers(1995, 2030)), draw(st.sampled_from([1, 2, 5]))
    y1 = min(2038, y0 + span)
    first = [y0, draw(st.integers(1, 12)), draw(st.integers(1, 28))]
    last = [y1, draw(st.integers(1, 12)), draw(st.integers(1, 28))]
    if not date(*first) < date(*last):
        last = [y0 + 1, first[1], first[2]]
    if draw(st.integers(0, 3)) == 0:
        # a short window (days to months) placed around an offset change of the zone
        from checks.c11_zoned_datetimes import transitions
        tr = [t for t, _a, _b in (transitions(zone) if zone != "UTC" else []) if 1971 <= t.year <= 2036]
        if tr:
            t = draw(st.sampled_from(tr))
            days = draw(st.sampled_from([1, 2, 7, 30, 45, 50, 63, 64, 65, 100, 190, 366]))
            f_ = t.date() - timedelta(days=draw(st.integers(0, days - 1)))
            l_ = f_ + timedelta(days=days)
            first, last, y1 = [f_.year, f_.month, f_.day], [l_.year, l_.month, l_.day], l_.year
    return {"provider": "zoneinfo" if right else draw(st.sampled_from(["zoneinfo", "pytz"])), "zone": zone, "first": first, "last": last, "grid_days": grid_days,
            "src_lib": "provider" if right else draw(st.sampled_from(["provider", "provider", "other"])), "pre_parse": draw(st.sampled_from([False, False, True])),
            "own_tzp": draw(st.booleans()),
            "pre_window": draw(st.sampled_from([None, None, [[1990, 1, 1], [1992, 1, 1]], [[2015, 6, 1], [2016, 6, 1]], [[y1, 1, 1], [min(2038, y1 + 2), 12, 31]]]))}


def streams(tier):
    n = 36 if tier == "quick" else 400
    grid = 5 if tier == "quick" else 1
    return [Stream("zone-windows", "hyp", n, 16, lambda: cases(grid), timeout_s=300)]


LEVEL_TEXT = ("Random (zone, window, provider) triples; each generated VTIMEZONE is judged at every ground-truth transition of the source "
              "zone +-1 s, at midpoints and on a grid, both through an independent RFC interpreter and through the conversion back. "
              "VTIMEZONE generation is slow, so the quick tier visits about 130 zone-windows; thorough about 2400.")
