"""C08 - Parameters round-trip with correct quoting, list arity, caseless names."""
import re

from hypothesis import strategies as st

from vlib.runner import Failure, Stream, exc_signature
from vlib import sut
from vlib.model.lineparse import parse_line, parse_params_text, unfold, LineSyntaxError

from icalendar import Event
from icalendar.parser import Parameters, Contentline
from icalendar.prop import vText, vCalAddress, vBinary
from datetime import date, datetime, timedelta, timezone

ID = "C08"
TECHNIQUE = "exhaustive sweep of parameter values over the delimiter alphabet (<=4 symbols) + Hypothesis parameter maps; round-trip oracle + independent RFC 5545 parameter tokenizer on the emitted text"
RULE = ("exhaustive: every value over the 11-symbol alphabet {a , ; : = ' ^ SP \\ % 2C} up to length 4, as scalar, [v] and "
        "[v, 'x'], on three paths (Parameters.to_ical/from_ical; Contentline.from_parts/parts; Event.add(..., parameters=) "
        "-> to_ical -> from_ical -> .params); Hypothesis: maps of 1-4 parameters, names over [A-Za-z0-9-] in any case "
        "(unique after upper-casing by construction), values printable Unicode without DQUOTE/controls weighted to the "
        "delimiter alphabet, empty strings, 1-4 element lists. Oracle: names equal case-insensitively, values equal, list "
        "order kept, scalar stays scalar and n>=2 lists stay lists ([v] == v, the text cannot tell them apart); the emitted "
        "text tokenised by the harness's RFC 5545 parameter grammar gives the same map, which implies every value "
        "containing , ; : is inside DQUOTEs. Non-trivial: a value needs quotes or contains = ' ^ \\ % or is empty or a list; "
        "distinct by construction / hash.")
RULE += ' Rounds 7-8: component path with 14 typed RFC properties, a second property of the same value type and the same property in a later component (no foreign parameters); a strict or lenient line constructed between construction and parsing; typed parameter strings.'
ASSUMPTIONS = ["values contain no DQUOTE and no control characters (premise of the statement)",
               "a one-element list and a scalar are the same text ([v] == v is a normalisation)"]
REQUIRED_CLASSES = ["path:params", "path:line", "path:component", "needs-quotes", "list-value", "empty-value", "has-backslash"]

SYM = ["a", ",", ";", ":", "=", "'", "^", " ", "\\", "%", "2C"]
NS = len(SYM)


def nth_value(i, maxlen=4):
    for k in range(maxlen + 1):
        sz = NS ** k
        if i < sz:
            out = []
            for _ in range(k):
                i, r = divmod(i, NS)
                out.append(SYM[r])
            return "".join(out)
        i -= sz
    raise IndexError


def total(maxlen=4):
    return sum(NS ** k for k in range(maxlen + 1))


def expected_map(pm):
    exp = {}
    for name, v in pm:
        if isinstance(v, list):
            exp[name.upper()] = v[0] if len(v) == 1 else list(v)
        else:
            exp[name.upper()] = v
    return exp


def as_plain(params):
    out = {}
    for k in params.keys():
        v = params[k]
        out[str(k).upper()] = [str(x) for x in v] if isinstance(v, (list, tuple)) else str(v)
    return out


def ref_map(tokens):
    out = {}
    for pname, values, quoted in tokens:
        out[pname.upper()] = values[0] if len(values) == 1 else list(values)
    return out


def judge(case):
    sut.reset()
    pm = case["params"]
    exp = expected_map(pm)
    path = case["path"]
    fails = []
    try:
        P = Parameters()
        wrap = {"vText": vText, "vCalAddress": vCalAddress, "strsub": type("StrSub", (str,), {})}.get(case.get("ptype"), str)
        for name, v in pm:
            P[name] = v if isinstance(v, list) else wrap(v)      # a typed string is its characters
        if path == "params":
            text = P.to_ical(sorted=case.get("sorted", True)).decode("utf-8")
            ptext = text
            pobj = Parameters.from_ical(text)
            got = as_plain(pobj)
            again = lambda: Parameters.from_ical(text)
        elif path == "line":
            cl = Contentline.from_parts("X-PROP", P, vText("v"), sorted=case.get("sorted", True))
            line = str(cl)
            try:
                _, toks, val = parse_line(line)
                ptext = None
                if ref_map(toks) != exp or val != "v":
                    fails.append(Failure("C08.quoting", "reference-parser-splits-differently",
                                         f"line={line!r} ref={ref_map(toks)!r} value={val!r} exp={exp!r}"[:400]))
            except LineSyntaxError as e:
                fails.append(Failure("C08.quoting", "emitted-line-not-rfc-grammar", f"{line!r}: {e}"[:300]))
            name, params, value = Contentline.from_ical(cl.to_ical()).parts()
            got = as_plain(params)
            if case.get("between"):
                # history: another content line - a strict one, as used to validate a single line - is constructed between the
                # construction of this line and its parsing; each line is parsed by its own rules
                Contentline("X-OTHER;Cn=q;x-l=a,B:v", strict=case["between"] == "strict")
                direct = as_plain(cl.parts()[1])
                Contentline("X-OTHER:v")
                if direct != got:
                    fails.append(Failure("C08.roundtrip-line", "line-parts-depend-on-a-line-constructed-in-between", f"pm={pm!r} direct={direct!r} fresh={got!r}"[:400]))
            pobj = params
            again = lambda: Contentline.from_ical(cl.to_ical()).parts()[1]
            if name != "X-PROP" or value != "v":
                fails.append(Failure("C08.roundtrip-line", "line-name-or-value-differs", f"{line!r} -> {name!r} {value!r}"[:300]))
        elif case.get("prop"):
            return fails + judge_typed(case, pm, exp)
        else:
            ev = Event()
            ev.add("x-prop", "v", parameters={name: (v if isinstance(v, list) else wrap(v)) for name, v in pm})
            ev.add("summary", "sentinel")
            raw = ev.to_ical()
            lines = [ln for ln in unfold(raw) if ln.upper().startswith("X-PROP")]
            ptext = None
            if len(lines) != 1:
                fails.append(Failure("C08.quoting", "emitted-property-line-missing", repr(raw)[:300]))
            else:
                try:
                    _, toks, val = parse_line(lines[0])
                    if ref_map(toks) != exp or val != "v":
                        fails.append(Failure("C08.quoting", "reference-parser-splits-differently",
                                             f"line={lines[0]!r} ref={ref_map(toks)!r} exp={exp!r}"[:400]))
                except LineSyntaxError as e:
                    fails.append(Failure("C08.quoting", "emitted-line-not-rfc-grammar", f"{lines[0]!r}: {e}"[:300]))
            ev2 = Event.from_ical(raw)
            v = ev2.get("x-prop")
            if v is None or isinstance(v, list):
                fails.append(Failure("C08.roundtrip-component", "property-lost-or-duplicated",
                                     f"pm={pm!r} errors={ev2.errors!r} got={v!r}"[:400]))
                return fails
            got = as_plain(v.params)
            pobj = v.params
            again = lambda: Event.from_ical(raw)["x-prop"].params
            if str(v) != "v" or str(ev2.get("summary")) != "sentinel" or len(ev2) != 2:
                fails.append(Failure("C08.roundtrip-component", "value-or-neighbour-differs", f"{raw!r}"[:300]))
        if path == "params":
            try:
                toks = parse_params_text(ptext)
                if ref_map(toks) != exp:
                    fails.append(Failure("C08.quoting", "reference-parser-splits-differently",
                                         f"text={ptext!r} ref={ref_map(toks)!r} exp={exp!r}"[:400]))
            except LineSyntaxError as e:
                fails.append(Failure("C08.quoting", "emitted-line-not-rfc-grammar", f"{ptext!r}: {e}"[:300]))
        # history: what a caller does to one parsed parameter map is invisible to the next parse of the same text
        for k in list(pobj.keys()):
            if isinstance(pobj[k], list):
                pobj[k].reverse()
                pobj[k].append("scribble")
        pobj["X-SCRIBBLE"] = ["1", "2"]
        got2 = as_plain(again())
        if got2 != got:
            fails.append(Failure(f"C08.roundtrip-{path}", f"{path}-second-parse-sees-edits-to-the-first-result", f"pm={pm!r} first={got!r} second={got2!r}"[:400]))
        if got != exp:
            kind = "names-differ" if set(got) != set(exp) else "values-differ"
            for k in exp:
                if k in got and isinstance(exp[k], list) != isinstance(got[k], list):
                    kind = "arity-differs"
            fails.append(Failure(f"C08.roundtrip-{path}", f"{path}-{kind}", f"pm={pm!r} got={got!r}"[:400]))
    except Exception as e:
        fails.append(Failure(f"C08.roundtrip-{path}", f"{path}-raises/" + exc_signature(e), f"pm={pm!r}: {e!r}"[:300]))
    return fails


TYPED = {
    # property name, a second name of the same value type, value builder
    "rdate-utc-list": ("RDATE", "EXDATE", lambda: [datetime(2025, 6, 1, 8, 0, tzinfo=timezone.utc), datetime(2025, 6, 2, 8, 0, tzinfo=timezone.utc)]),
    "exdate-floating-list": ("EXDATE", "RDATE", lambda: [datetime(2025, 6, 1, 8, 0), datetime(2025, 6, 2, 8, 0)]),
    "rdate-date-list": ("RDATE", "EXDATE", lambda: [date(2025, 6, 1), date(2025, 6, 2)]),
    "exdate-zoned": ("EXDATE", "RDATE", lambda: [datetime(2025, 6, 1, 8, 0, tzinfo=__import__("zoneinfo").ZoneInfo("Europe/Berlin"))]),
    "dtstart-utc": ("DTSTART", "DTEND", lambda: datetime(2025, 6, 1, 8, 0, tzinfo=timezone.utc)),
    "dtstart-date": ("DTSTART", "DTEND", lambda: date(2025, 6, 1)),
    "attendee": ("ATTENDEE", "ORGANIZER", lambda: vCalAddress("mailto:a@example.com")),
    "categories": ("CATEGORIES", "RESOURCES", lambda: ["a", "b"]),
    "duration": ("DURATION", "X-DUR", lambda: timedelta(hours=1)),
    "freebusy": ("FREEBUSY", "X-FB", lambda: (datetime(2025, 6, 1, 8, 0, tzinfo=timezone.utc), timedelta(hours=1))),
    "rrule": ("RRULE", "EXRULE", lambda: {"FREQ": "DAILY", "COUNT": 3}),
    "geo": ("GEO", "X-GEO", lambda: (1.5, 2.5)),
    "sequence": ("SEQUENCE", "PRIORITY", lambda: 3),
    "attach-binary": ("ATTACH", "X-ATT", lambda: vBinary("payload")),
}
DERIVED = ("VALUE", "TZID", "ENCODING")


def judge_typed(case, pm, exp):
    """component path with the typed values of RFC properties: the supplied parameters come back on that property - and on no other
    (neither a second property of the same value type in the same component, nor the same property of a component built later)"""
    fails = []
    name, name2, mk = TYPED[case["prop"]]

    def plain(v_):
        return {k: v for k, v in as_plain(getattr(v_, "params", {})).items() if k not in DERIVED}
    ev = Event()
    if case.get("neighbour_first"):
        ev.add(name2, mk())
    ev.add(name, mk(), parameters={n_: v for n_, v in pm})
    if not case.get("neighbour_first"):
        ev.add(name2, mk())
    later = Event()
    later.add(name, mk())
    raw, raw_later = ev.to_ical(), later.to_ical()
    back, back_later = Event.from_ical(raw), Event.from_ical(raw_later)
    v = back.get(name)
    if v is None or isinstance(v, list):
        return [Failure("C08.roundtrip-component", "property-lost-or-duplicated", f"{name} pm={pm!r} errors={back.errors!r} got={v!r}"[:400])]
    got = plain(v)
    if got != exp:
        fails.append(Failure("C08.roundtrip-component", "component-values-differ/" + case["prop"], f"{name} pm={pm!r} got={got!r}"[:400]))
    for what, other in (("second-property-of-the-same-type", back.get(name2)), ("same-property-of-a-later-component", back_later.get(name))):
        if other is None or any(plain(o_) for o_ in (other if isinstance(other, list) else [other])):
            fails.append(Failure("C08.roundtrip-component", "parameters-appear-on-another-property/" + what, f"{case['prop']} pm={pm!r}: {other!r} params={getattr(other, 'params', None)!r}"[:400]))
    lines = [ln for ln in unfold(raw) if ln.upper().startswith(name + ";") or ln.upper().startswith(name + ":")]
    if len(lines) == 1:
        try:
            _, toks, _val = parse_line(lines[0])
            ref = {k: v for k, v in ref_map(toks).items() if k not in DERIVED}
            if ref != exp:
                fails.append(Failure("C08.quoting", "reference-parser-splits-differently", f"line={lines[0]!r} ref={ref!r} exp={exp!r}"[:400]))
        except LineSyntaxError as e:
            fails.append(Failure("C08.quoting", "emitted-line-not-rfc-grammar", f"{lines[0]!r}: {e}"[:300]))
    else:
        fails.append(Failure("C08.quoting", "emitted-property-line-missing", repr(raw)[:300]))
    return fails


def _values(case):
    for _, v in case["params"]:
        if isinstance(v, list):
            yield from v
        else:
            yield v


def info(case):
    vals = list(_values(case))
    classes = ["path:" + case["path"]]
    if case.get("prop") and case["path"] == "component":
        classes.append("typed-property:" + case["prop"])
    if case.get("between") and case["path"] == "line":
        classes.append("history:line-constructed-in-between/" + case["between"])
    nt = False
    if any(re.search(r"[,;:]", v) for v in vals):
        classes.append("needs-quotes")
        nt = True
    if any(isinstance(v, list) for _, v in case["params"]):
        classes.append("list-value")
        nt = True
    if any(v == "" for v in vals):
        classes.append("empty-value")
        nt = True
    if any("\\" in v for v in vals):
        classes.append("has-backslash")
    if any(re.search(r"[=' ^\\%]", v) for v in vals):
        nt = True
    return {"nontrivial": nt, "classes": classes}


# ----------------------------------------------------------------------------- known-finding region (RC-B)

_RCB = re.compile(r"\\[,:;\\]|\\$|%2C|%3A|%3B|%5C")


def region_rcb_param(case):
    """RC-B on parameters: Contentline.parts() treats backslash + one of , : ; \\ in the *whole line* as an escape and maps
    literal %2C/%3A/%3B/%5C; region: content-line or component path and some parameter value contains such a sequence, or
    ends in a backslash (the delimiter that follows completes the pair)."""
    if case["path"] == "params":
        return False
    return any(_RCB.search(v) for v in _values(case))


SHRINK_STRINGS = True
REGIONS = {"rcb-param-value": region_rcb_param}

# ----------------------------------------------------------------------------- streams

_pchar = st.one_of(st.sampled_from(SYM), st.sampled_from(list("bcXYZ019-_./@")), st.sampled_from(["%2c", "%3a", "%3b", "%5c", "%2f", "%22", "cid:part%3aone"]),
                   st.characters(blacklist_categories=("Cs", "Cc"), blacklist_characters='"\x7f'))
pvalue = st.lists(_pchar, max_size=12).map("".join)
pname = st.lists(st.sampled_from(list("abcxyzABCXYZ0189-")), min_size=1, max_size=8).map("".join).filter(lambda s: True)


@st.composite
def pmaps(draw):
    names = draw(st.lists(pname, min_size=1, max_size=4, unique_by=lambda s: s.upper()))
    pm = []
    for nm in names:
        if draw(st.integers(0, 2)) == 0:
            pm.append([nm, draw(st.lists(pvalue, min_size=1, max_size=4))])
        else:
            pm.append([nm, draw(pvalue)])
    return {"path": draw(st.sampled_from(["params", "line", "component", "component"])), "params": pm, "sorted": draw(st.booleans()),
            "prop": draw(st.one_of(st.none(), st.sampled_from(sorted(TYPED)))), "neighbour_first": draw(st.booleans()),
            "between": draw(st.sampled_from([None, "strict", "strict", "lenient"])), "ptype": draw(st.sampled_from([None, None, "vText", "vCalAddress", "strsub"]))}


def _sweep(i):
    pi, rest = divmod(i, 3 * total())
    shape, vi = divmod(rest, total())
    v = nth_value(vi)
    val = [v, [v], [v, "x"]][shape]
    return {"path": ["params", "line", "component"][pi], "params": [["X-Par", val]]}


def streams(tier):
    n = 1500 if tier == "quick" else 40000
    return [
        Stream("value-sweep", "enum", 3 * 3 * total(), 16, _sweep, True, True),
        Stream("parameter-maps", "hyp", n, 16, pmaps),
    ]


LEVEL_TEXT = ("All values over the delimiter alphabet up to 4 symbols are enumerated on all three paths and arities, so every "
              "short combination of quote-relevant characters is decided; longer values and multi-parameter maps are sampled. "
              "The emitted text is additionally tokenised by an independent RFC 5545 grammar.")
