"""C15 - An alarm is active iff not acknowledged at/after its (snoozed) trigger."""
from datetime import date, datetime, timedelta, timezone
import zoneinfo

from hypothesis import strategies as st

from vlib.runner import Failure, Stream, exc_signature
from vlib import sut, values as V
from vlib.model import render as R

from icalendar import Alarm, Event, Todo
from icalendar.alarms import Alarms, LocalTimezoneMissing

ID = "C15"
TECHNIQUE = "exhaustive decision table over the orderings (incl. equality) of trigger / alarm ACKNOWLEDGED / component acknowledgement / snooze x trigger kind x wiring mode x local zone x provider, plus Hypothesis instants; reference predicate copied from the statement; metamorphic 'later acknowledgement never activates'"
RULE = ("Exhaustive table: trigger kind {UTC absolute, zoned, floating, date} x alarm ACKNOWLEDGED {absent, t-1s, t, t+1s, t+1d} x "
        "component acknowledgement {same five} wired through DTSTAMP (API), X-MOZ-LASTACK (API setters and parsed text) or the "
        "manual Alarms API x snooze {absent, t-2h, t-1s, t, t+1s, t+2h, t+1d, t+1d+1s} (Thunderbird / manual modes) x local zone "
        "{unset, set} x provider (about 10^4 rows), plus Hypothesis-drawn offsets. Oracle: ack = max(present acknowledgements); "
        "active <=> ack absent or snooze > ack or trigger > ack; reported trigger = snooze if snooze > trigger; Alarms.active is "
        "an order-preserving sub-list of Alarms.times; making the acknowledgement later never turns an inactive alarm active; "
        "the only permitted error is LocalTimezoneMissing, and only for floating/date triggers without a local zone when the "
        "trigger must be compared. Non-trivial: >= 2 of the four instants present; distinct by construction / hash.")
RULE += ' Rounds 7-8: snooze against a zoned trigger inside a repeated hour; a refused second component leaves the Alarms object unchanged; sub-second distances on the API paths.'
ASSUMPTIONS = ["in Thunderbird mode (any X-MOZ- property) the component acknowledgement is X-MOZ-LASTACK, otherwise DTSTAMP",
               "a date-valued trigger stands for local midnight"]
REQUIRED_CLASSES = ["multi-alarm", "tkind:utc", "tkind:zoned", "tkind:floating", "tkind:date", "mode:dtstamp", "mode:moz", "mode:moz-parse", "mode:manual",
                    "equal-instants", "snoozed", "local-tz-set"]

UTC = timezone.utc
T_WALL = [2021, 6, 15, 10, 0, 0]
ZONE = "America/New_York"
LOCAL = "Europe/Berlin"


def _us(case):
    """sub-second part of the trigger (API paths only: iCalendar text has whole seconds)"""
    return case.get("t_us", 0) if case["mode"] != "moz-parse" and case["tkind"] != "date" else 0


def _start(case, start, provider):
    v = V.dec(start, provider)
    return v.replace(microsecond=_us(case)) if isinstance(v, datetime) and case["tkind"] != "utc" else v


def trig_instant(case):
    """trigger as a UTC instant (floating/date without local zone: wall time read as UTC, only used to place the other instants)"""
    k = case["tkind"]
    wall = datetime(*T_WALL, microsecond=_us(case)) if k != "date" else datetime(*T_WALL[:3])
    if k == "utc":
        return wall.replace(tzinfo=UTC)
    if k == "zoned":
        return wall.replace(tzinfo=zoneinfo.ZoneInfo(ZONE)).astimezone(UTC)
    if case.get("local_tz"):
        return wall.replace(tzinfo=zoneinfo.ZoneInfo(LOCAL)).astimezone(UTC)
    return wall.replace(tzinfo=UTC)


def inst(case, off):
    return None if off is None else trig_instant(case) + timedelta(seconds=off)


def model(case, alarm_ack, comp_ack, snooze):
    t = trig_instant(case)
    has_tz = case["tkind"] in ("utc", "zoned") or bool(case.get("local_tz"))
    acks = [a for a in (alarm_ack, comp_ack) if a is not None]
    ack = max(acks) if acks else None
    if ack is None:
        active = True
    elif snooze is not None and snooze > ack:
        active = True
    elif not has_tz:
        active = "LocalTimezoneMissing"
    else:
        active = t > ack
    if snooze is None:
        reported = ("orig",)
    elif not has_tz:
        reported = ("either",)       # cannot be compared without a zone: either value (or the documented error) is accepted
    elif snooze > t:
        reported = ("snooze", snooze)
    else:
        reported = ("orig",)
    return active, ack, reported


def utc_list(dt):
    return [dt.year, dt.month, dt.day, dt.hour, dt.minute, dt.second]


def build(case, provider, alarm_ack, comp_ack, snooze):
    mode = case["mode"]
    k = case["tkind"]
    if k == "utc":
        start = {"k": "utc", "v": [2021, 6, 1, 0, 0, 0]}
    elif k == "zoned":
        start = {"k": "zoned", "v": T_WALL, "tz": ZONE}
    elif k == "floating":
        start = {"k": "naive", "v": T_WALL}
    else:
        start = {"k": "date", "v": T_WALL[:3]}
    if mode == "moz-parse":
        lines = ["BEGIN:VEVENT", "UID:verif-c15", R.prop_line("DTSTART", start)]
        if case.get("decoy_dtstamp"):
            lines.append("DTSTAMP:20300101T000000Z")
        if case.get("decoy_other"):      # time stamps that are no acknowledgement
            lines += ["LAST-MODIFIED:20300101T000000Z", "CREATED:20300101T000000Z"]
        if comp_ack is not None:
            lines.append(f"X-MOZ-LASTACK:{R.fmt_dt(utc_list(comp_ack), True)}")
        if snooze is not None:
            lines.append(f"X-MOZ-SNOOZE-TIME:{R.fmt_dt(utc_list(snooze), True)}")
        if comp_ack is None and snooze is None:
            lines.append(f"{case.get('moz_marker', 'X-MOZ-GENERATION')}:1")
        lines += ["BEGIN:VALARM", "ACTION:DISPLAY"]
        if k == "utc":
            lines.append(f"TRIGGER;VALUE=DATE-TIME:{R.fmt_dt(T_WALL, True)}")
        else:
            lines.append("TRIGGER:PT0S")
        if alarm_ack is not None:
            lines.append(f"ACKNOWLEDGED:{R.fmt_dt(utc_list(alarm_ack), True)}")
        lines += ["END:VALARM", "END:VEVENT"]
        ev = Event.from_ical("\r\n".join(lines) + "\r\n")
        return ev.alarms
    cls = Event if case.get("comp", "Event") == "Event" else Todo
    ev = cls()
    al = Alarm()
    al.TRIGGER = datetime(*T_WALL, microsecond=_us(case), tzinfo=UTC) if k == "utc" else timedelta(0)
    if alarm_ack is not None:
        al.ACKNOWLEDGED = alarm_ack
    if mode == "manual":
        A = Alarms()
        A.add_alarm(al)
        A.set_start(_start(case, start, provider))
        prime = case.get("prime")
        if prime:       # history on one object: the results were read (and possibly cached) before the last setter call
            far_past, far_future = datetime(1999, 1, 1, tzinfo=UTC), datetime(2999, 1, 1, tzinfo=UTC)
            if prime in ("snooze-last", "plain"):
                A.acknowledge_until(comp_ack)
                A.snooze_until(far_future if snooze is None else None)
            else:       # "ack-last"
                A.snooze_until(snooze)
                A.acknowledge_until(far_past if comp_ack is None else None)
            for attr in ("times", "active"):
                try:
                    getattr(A, attr)
                except LocalTimezoneMissing:
                    pass
            if prime in ("snooze-last", "plain"):
                A.snooze_until(snooze)
            else:
                A.acknowledge_until(comp_ack)
            return A
        A.acknowledge_until(comp_ack)
        A.snooze_until(snooze)
        return A
    ev.start = _start(case, start, provider)
    ev.add_component(al)
    if case.get("decoy_other"):          # time stamps that are no acknowledgement: LAST-MODIFIED, CREATED (far in the future)
        ev.LAST_MODIFIED = datetime(2030, 1, 1, tzinfo=UTC)
        ev.add("CREATED", datetime(2030, 1, 1, tzinfo=UTC))
    if mode == "dtstamp":
        if comp_ack is not None:
            ev.DTSTAMP = comp_ack
    else:  # moz via the API setters
        if case.get("decoy_dtstamp"):
            ev.DTSTAMP = datetime(2030, 1, 1, tzinfo=UTC)
        if comp_ack is not None:
            ev.X_MOZ_LASTACK = comp_ack
        if snooze is not None:
            ev.X_MOZ_SNOOZE_TIME = snooze
        if comp_ack is None and snooze is None:
            ev.add(case.get("moz_marker", "X-MOZ-GENERATION"), "1")
    if case.get("refused"):
        # history: a second component is offered to the same Alarms object and refused ("You can only set one parent");
        # the caller catches that - the object still belongs to the first component and answers for it
        A = Alarms(ev)
        other = cls()
        if case["refused"] != "incomplete":
            other.start = datetime(2031, 1, 1, 12, 0, tzinfo=UTC)
        other.DTSTAMP = datetime(2999, 1, 1, tzinfo=UTC) if case["refused"] == "acknowledged-far-later" else datetime(1999, 1, 1, tzinfo=UTC)
        if case["refused"] == "thunderbird":
            other.X_MOZ_LASTACK = datetime(2999, 1, 1, tzinfo=UTC)
            other.X_MOZ_SNOOZE_TIME = datetime(2999, 6, 1, tzinfo=UTC)
        try:
            A.add_component(other)
        except ValueError:
            return A
        raise AssertionError("harness: a second parent was accepted")
    return ev.alarms


def observe(case, provider, alarm_ack, comp_ack, snooze):
    """-> (active: bool | error name, reported trigger, AlarmTime.acknowledged, sublist_ok)"""
    A = build(case, provider, alarm_ack, comp_ack, snooze)
    if case.get("local_tz"):
        src = case.get("local_src", "str")      # the local zone may be given as an id or as a tzinfo object of either tz library
        A.set_local_timezone(LOCAL if src == "str" else (__import__("pytz").timezone(LOCAL) if src == "pytz" else zoneinfo.ZoneInfo(LOCAL)))
    times = A.times
    if len(times) != 1:
        raise AssertionError(f"expected one alarm time, got {len(times)}")
    at = times[0]
    try:
        act = at.is_active()
    except LocalTimezoneMissing:
        act = "LocalTimezoneMissing"
    try:
        lst = A.active
        lst_r = [id(x.alarm) for x in lst]
    except LocalTimezoneMissing:
        lst_r = "LocalTimezoneMissing"
    try:
        rep = at.trigger
    except LocalTimezoneMissing:
        rep = "LocalTimezoneMissing"
    return act, rep, at.acknowledged, lst_r, [id(x.alarm) for x in times]


def judge_multi(case, provider):
    """several alarms (with repeats) in one component: every alarm time is judged with its own alarm's ACKNOWLEDGED"""
    start = datetime(2021, 6, 15, 10, 0, 0, tzinfo=zoneinfo.ZoneInfo(ZONE))
    s_utc = start.astimezone(UTC)
    at = lambda off: None if off is None else s_utc + timedelta(seconds=off)   # noqa: E731
    other = zoneinfo.ZoneInfo("Asia/Tokyo")
    comp_ack, snooze = at(case.get("comp_ack")), at(case.get("snooze"))
    if case["mode"] == "moz-parse":
        lines = ["BEGIN:VEVENT", "UID:m", f"DTSTART;TZID={ZONE}:{R.fmt_dt(T_WALL)}"]
        if comp_ack is not None:
            lines.append(f"X-MOZ-LASTACK:{R.fmt_dt(utc_list(comp_ack), True)}")
        if snooze is not None:
            lines.append(f"X-MOZ-SNOOZE-TIME:{R.fmt_dt(utc_list(snooze), True)}")
        if comp_ack is None and snooze is None:
            lines.append("X-MOZ-GENERATION:1")
        for a in case["alarms"]:
            lines += ["BEGIN:VALARM", "ACTION:DISPLAY", f"TRIGGER:{R.fmt_dur_td(timedelta(seconds=a['trig']))}"]
            if a.get("ack") is not None:
                lines.append(f"ACKNOWLEDGED:{R.fmt_dt(utc_list(at(a['ack'])), True)}")
            if a.get("repeat"):
                lines += [f"REPEAT:{a['repeat']}", f"DURATION:{R.fmt_dur_td(timedelta(seconds=a['dur']))}"]
            lines.append("END:VALARM")
        lines.append("END:VEVENT")
        ev = Event.from_ical("\r\n".join(lines) + "\r\n")
        alarms = ev.walk("VALARM")
    else:
        ev = Event()
        ev.start = V.dec({"k": "zoned", "v": T_WALL, "tz": ZONE}, provider)
        alarms = []
        for a in case["alarms"]:
            al = Alarm()
            al.TRIGGER = timedelta(seconds=a["trig"])
            if a.get("ack") is not None:
                al.ACKNOWLEDGED = at(a["ack"]).astimezone(other) if a.get("ack_other_zone") else at(a["ack"])
            if a.get("repeat"):
                al.REPEAT = a["repeat"]
                al.DURATION = timedelta(seconds=a["dur"])
            ev.add_component(al)
            alarms.append(al)
        if comp_ack is not None:
            ev.DTSTAMP = comp_ack.astimezone(other) if case.get("comp_ack_other_zone") else comp_ack
        snooze = None
    idx = {id(a): i for i, a in enumerate(alarms)}
    want_times, want_active = [], []
    for i, a in enumerate(case["alarms"]):
        for k in range(0, (a.get("repeat") or 0) + 1):
            t = s_utc + timedelta(seconds=a["trig"] + k * (a.get("dur") or 0))
            acks = [x for x in (at(a.get("ack")), comp_ack) if x is not None]
            ack = max(acks) if acks else None
            active = ack is None or (snooze is not None and snooze > ack) or t > ack
            rep = snooze if (snooze is not None and snooze > t) else t
            want_times.append((i, t))
            if active:
                want_active.append((i, rep))
    fails = []
    try:
        A = ev.alarms
        times = A.times
        got_times = sorted((idx[id(x.alarm)], x._trigger.astimezone(UTC)) for x in times)
        act = A.active
        got_active = sorted((idx[id(x.alarm)], x.trigger.astimezone(UTC)) for x in act)
    except Exception as e:
        return [Failure("C15.errors", "multi-raises/" + exc_signature(e), repr(e)[:300])]
    if got_times != sorted(want_times):
        fails.append(Failure("C15.active", "multi-times-differ", f"{got_times!r} vs {sorted(want_times)!r}"[:500]))
    if got_active != sorted(want_active):
        fails.append(Failure("C15.active", "multi-active-set-differs", f"got {got_active!r} want {sorted(want_active)!r}"[:600]))
    tkeys = [(idx[id(x.alarm)], x._trigger) for x in times]
    it = iter(tkeys)
    if not all(any(k == t for t in it) for k in [(idx[id(x.alarm)], x._trigger) for x in act]):      # subsequence test
        fails.append(Failure("C15.active", "active-not-an-ordered-sublist-of-times", f"{tkeys!r}"[:300]))
    return fails


FOLDS = {"Europe/Berlin": [2021, 10, 31, 2, 30, 0], "America/New_York": [2021, 11, 7, 1, 30, 0], "Australia/Lord_Howe": [2021, 4, 4, 1, 45, 0]}


def judge_fold_ack(case, provider):
    """history on one Alarms object: acknowledgements (or snoozes) given as the two occurrences of one ambiguous wall time - equal
    and equally hashed as Python values, different instants - one after the other; the last call counts"""
    import dateutil.tz
    zone, wall = case["zone"], FOLDS[case["zone"]]
    tz = zoneinfo.ZoneInfo(zone) if case["src"] == "zoneinfo" else dateutil.tz.gettz(zone)
    occ = [datetime(*wall, tzinfo=tz, fold=f) for f in (0, 1)]
    inst_ = [o.astimezone(UTC) for o in occ]
    trig = inst_[0] + (inst_[1] - inst_[0]) / 2           # between the two occurrences
    al = Alarm()
    al.TRIGGER = trig
    A = Alarms()
    A.add_alarm(al)
    fails = []
    if case["what"] == "zoned-trigger":
        # the trigger itself is a zoned time inside the repeated hour (first occurrence of the later wall time); the snooze is the
        # second occurrence of the earlier wall time: a later instant with an earlier wall clock reading
        later_wall = datetime(*wall) + timedelta(minutes=10)
        start = later_wall.replace(tzinfo=tz, fold=0)
        if provider == "pytz" and case["src"] == "zoneinfo":
            import pytz
            start = pytz.timezone(zone).localize(later_wall, is_dst=True)
        al.TRIGGER = timedelta(0)
        A = Alarms()
        A.add_alarm(al)
        A.set_start(start)
        A.acknowledge_until(inst_[0] - timedelta(hours=5))
        t_inst = start.astimezone(UTC)
        for step, f in enumerate(case["order"]):
            snz = {"same-zone": occ[f], "utc": inst_[f], "other-zone": inst_[f].astimezone(zoneinfo.ZoneInfo("Asia/Tokyo"))}[case.get("snooze_as", "utc")]
            A.snooze_until(snz)
            want = inst_[f] if inst_[f] > t_inst else t_inst
            got = A.times[0].trigger
            if got.astimezone(UTC) != want:
                fails.append(Failure("C15.snooze-trigger", "snooze-later-than-zoned-trigger-in-repeated-hour-not-reported", f"step {step} fold={f} snooze={snz!r} start={start!r}: {got!r} expected {want!r}"))
            if not A.active:
                fails.append(Failure("C15.active-iff", "active-differs-for-fold-occurrence", f"step {step}: snoozed after the acknowledgement but not active"))
        return fails[:3]
    for step, f in enumerate(case["order"]):
        if case["what"] == "ack":
            A.acknowledge_until(occ[f])
        else:
            A.acknowledge_until(inst_[0] - timedelta(hours=5))
            A.snooze_until(occ[f])
        times = A.times
        active = A.active
        if case["what"] == "ack":
            want_active = trig > inst_[f]
            got_ack = times[0].acknowledged
            if got_ack is None or got_ack.astimezone(UTC) != inst_[f]:
                fails.append(Failure("C15.acknowledged-until", "acknowledged-until-is-another-occurrence-of-the-wall-time", f"step {step} fold={f}: {got_ack!r} expected {inst_[f]!r}"))
        else:
            want_active = inst_[f] > inst_[0] - timedelta(hours=5)      # snoozed until after the acknowledgement: always active
            want_trigger = inst_[f] if inst_[f] > trig else trig
            if times[0].trigger.astimezone(UTC) != want_trigger:
                fails.append(Failure("C15.snooze-trigger", "snoozed-trigger-is-another-occurrence-of-the-wall-time", f"step {step} fold={f}: {times[0].trigger!r} expected {want_trigger!r}"))
        if bool(active) != want_active:
            fails.append(Failure("C15.active-iff", "active-differs-for-fold-occurrence", f"step {step} fold={f}: active={bool(active)} expected {want_active}"))
    return fails[:3]


def judge(case):
    provider = case.get("provider", "zoneinfo")
    sut.reset(provider)
    if case.get("kind") == "fold-ack":
        return judge_fold_ack(case, provider)
    if case.get("kind") == "multi":
        return judge_multi(case, provider)
    if case["mode"] == "dtstamp" and case.get("snooze") is not None:
        raise ValueError("malformed case: no snooze wiring in DTSTAMP mode")
    a_ack, c_ack, snz = inst(case, case.get("alarm_ack")), inst(case, case.get("comp_ack")), inst(case, case.get("snooze"))
    fails = []
    exp_active, exp_ack, exp_rep = model(case, a_ack, c_ack, snz)
    try:
        act, rep, got_ack, lst, all_ids = observe(case, provider, a_ack, c_ack, snz)
    except Exception as e:
        return [Failure("C15.errors", "raises/" + exc_signature(e), f"{e!r}"[:300])]
    if act != exp_active:
        fails.append(Failure("C15.active", f"is_active-differs/{exp_active}->{act}", f"ack={exp_ack} snooze={snz} trigger={trig_instant(case)}"))
    if (got_ack is None) != (exp_ack is None) or (got_ack is not None and got_ack != exp_ack):
        fails.append(Failure("C15.acknowledged", "acknowledged-until-differs", f"got {got_ack!r} expected {exp_ack!r}"))
    # Alarms.active: sub-list of times consistent with is_active
    if lst == "LocalTimezoneMissing":
        if exp_active != "LocalTimezoneMissing":
            fails.append(Failure("C15.errors", "active-raises-LocalTimezoneMissing-unexpectedly", ""))
    else:
        want = all_ids if exp_active is True else []
        if exp_active == "LocalTimezoneMissing" or lst != want:
            fails.append(Failure("C15.active", "active-list-differs", f"{lst!r} vs {want!r} (exp_active={exp_active})"))
    # reported trigger
    if exp_rep[0] == "snooze":
        if not (isinstance(rep, datetime) and rep.tzinfo is not None and rep == exp_rep[1]):
            fails.append(Failure("C15.trigger", "snoozed-trigger-not-reported", f"got {rep!r} expected {exp_rep[1]!r}"))
    elif exp_rep[0] == "orig":
        ok = _is_orig(case, rep)
        if not ok:
            fails.append(Failure("C15.trigger", "trigger-differs", f"got {rep!r}"))
    else:
        if not (rep == "LocalTimezoneMissing" or _is_orig(case, rep) or (isinstance(rep, datetime) and rep.tzinfo is not None and rep == snz)):
            fails.append(Failure("C15.trigger", "trigger-differs", f"got {rep!r}"))
    # metamorphic: a later acknowledgement never activates an inactive alarm
    if exp_active is False or act is False:
        later = (max(x for x in (a_ack, c_ack) if x is not None) + timedelta(seconds=case.get("later_by", 3600)))
        try:
            if c_ack is not None:
                act2 = observe(case, provider, a_ack, later, snz if snz is None or snz <= later else snz)[0]
                # keep the snooze relation: only compare when the snooze is not after the new acknowledgement
                if not (snz is not None and snz > later) and act is False and act2 is True:
                    fails.append(Failure("C15.monotone", "later-acknowledgement-activates", f"ack {c_ack} -> {later}"))
            else:
                act2 = observe(case, provider, later, c_ack, snz)[0]
                if not (snz is not None and snz > later) and act is False and act2 is True:
                    fails.append(Failure("C15.monotone", "later-acknowledgement-activates", f"alarm ack {a_ack} -> {later}"))
        except Exception as e:
            fails.append(Failure("C15.errors", "raises/" + exc_signature(e), f"{e!r}"[:300]))
    return fails


def _is_orig(case, rep):
    k = case["tkind"]
    wall = datetime(*T_WALL, microsecond=_us(case))
    if k == "date":
        if case.get("local_tz"):
            return (isinstance(rep, datetime) and rep.replace(tzinfo=None) == datetime(*T_WALL[:3]) and rep.tzinfo is not None) or rep == date(*T_WALL[:3])
        return rep == date(*T_WALL[:3]) and not isinstance(rep, datetime)
    if not isinstance(rep, datetime):
        return False
    if k == "floating":
        if case.get("local_tz"):
            return rep.tzinfo is not None and rep.replace(tzinfo=None) == wall
        return rep.tzinfo is None and rep == wall
    return rep.tzinfo is not None and rep == trig_instant(case)


def info(case):
    if case.get("kind") == "fold-ack":
        return {"nontrivial": len(case["order"]) >= 2, "classes": ["fold-occurrences", "fold:" + case["what"]]}
    if case.get("kind") == "multi":
        return {"nontrivial": len(case["alarms"]) >= 2, "classes": ["multi-alarm", "mode:" + case["mode"]]}
    offs = [case.get("alarm_ack"), case.get("comp_ack"), case.get("snooze")]
    present = 1 + sum(1 for o in offs if o is not None)
    classes = ["tkind:" + case["tkind"], "mode:" + case["mode"]]
    vals = [0] + [o for o in offs if o is not None]
    if len(set(vals)) < len(vals):
        classes.append("equal-instants")
    if case.get("snooze") is not None:
        classes.append("snoozed")
    if case.get("local_tz"):
        classes.append("local-tz-set")
    if _us(case) or any(isinstance(o, float) for o in offs):
        classes.append("sub-second-distance")
    if case.get("refused") and case["mode"] in ("dtstamp", "moz"):
        classes.append("history:second-component-refused")
    return {"nontrivial": present >= 2, "classes": classes}


REGIONS = {}

MARKERS = ["X-MOZ-GENERATION", "X-MOZ-SEND-INVITATIONS", "X-MOZ-RECEIVED-DTSTAMP", "X-MOZ-SNOOZE-TIME-1729339200000000", "X-MOZ-FAKED-MASTER"]
ACK = [None, -1, 0, 1, 86400]
SNZ = [None, -7200, -1, 0, 1, 7200, 86400, 86401]
MODES = ["dtstamp", "moz", "moz-parse", "manual"]
KINDS = ["utc", "zoned", "floating", "date"]


def _rows():
    rows = []
    for provider in ("zoneinfo", "pytz"):
        for k in KINDS:
            for mode in MODES:
                for a in ACK:
                    for c in ACK:
                        for s in (SNZ if mode != "dtstamp" else [None]):
                            for local in (False, True):
                                i = len(rows)
                                rows.append({"provider": provider, "tkind": k, "mode": mode, "alarm_ack": a, "comp_ack": c, "snooze": s,
                                             "local_tz": local, "decoy_dtstamp": bool((a or 0) % 2 == 0) and mode.startswith("moz"), "decoy_other": len(rows) % 3 == 0,
                                             "local_src": ["str", "zoneinfo", "pytz"][i % 3], "prime": [None, "plain", "snooze-last", "ack-last"][(i // 3) % 4],
                                             "moz_marker": MARKERS[(i // 5) % len(MARKERS)],
                                             "refused": [None, None, "acknowledged-far-later", "acknowledged-long-ago", "thunderbird", "incomplete"][(i // 7) % 6] if mode in ("dtstamp", "moz") else None})
    return rows


_off = st.one_of(st.none(), st.integers(-10 ** 6, 10 ** 6), st.sampled_from([-1, 0, 1]),
                 st.sampled_from([-0.75, -0.5, -0.25, -0.125, 0.125, 0.25, 0.5, 0.75, 1.5, -1.5, 0.000001, -0.000001]))     # API paths: sub-second distances


def _whole_seconds_in_text(case):
    if case["mode"] == "moz-parse":
        case = dict(case, t_us=0, **{k: (None if case[k] is None else int(case[k])) for k in ("alarm_ack", "comp_ack", "snooze")})
    return case


def _hyp():
    return st.fixed_dictionaries({
        "provider": st.sampled_from(["zoneinfo", "pytz"]), "tkind": st.sampled_from(KINDS), "mode": st.sampled_from(MODES[1:]),
        "alarm_ack": _off, "comp_ack": _off, "snooze": _off, "local_tz": st.booleans(), "decoy_dtstamp": st.booleans(), "decoy_other": st.booleans(),
        "local_src": st.sampled_from(["str", "zoneinfo", "pytz"]), "prime": st.sampled_from([None, "plain", "snooze-last", "ack-last"]),
        "moz_marker": st.sampled_from(MARKERS),
        "comp": st.sampled_from(["Event", "Todo"]), "later_by": st.integers(1, 10 ** 6),
        "refused": st.sampled_from([None, None, "acknowledged-far-later", "acknowledged-long-ago", "thunderbird", "incomplete"]),
        "t_us": st.sampled_from([0, 0, 0, 250000, 500000, 999999, 1])}).map(_whole_seconds_in_text)


def _multi():
    off = st.one_of(st.none(), st.sampled_from([-7200, -3601, -3600, -3599, -1, 0, 1, 3600, 86400]), st.integers(-10 ** 5, 10 ** 5))
    alarm = st.fixed_dictionaries({"trig": st.sampled_from([-7200, -3600, -900, 0, 600, 3600]), "ack": off, "ack_other_zone": st.booleans(),
                                   "repeat": st.sampled_from([0, 0, 1, 3]), "dur": st.sampled_from([60, 900, 3600])})
    return st.fixed_dictionaries({"kind": st.just("multi"), "provider": st.sampled_from(["zoneinfo", "pytz"]), "mode": st.sampled_from(["dtstamp", "moz-parse"]),
                                  "alarms": st.lists(alarm, min_size=1, max_size=4), "comp_ack": off, "comp_ack_other_zone": st.booleans(), "snooze": off})


def streams(tier):
    n = 1500 if tier == "quick" else 30000
    return [
        Stream("decision-table", "fixed", 0, 16, _rows, True, True),
        Stream("random-instants", "hyp", n, 16, _hyp),
        Stream("several-alarms", "hyp", n, 8, _multi),
        Stream("fold-occurrences", "fixed", 0, 2, _fold_rows, True, True),
    ]


def _fold_rows():
    return [{"kind": "fold-ack", "provider": p, "zone": z, "src": src, "what": w, "order": o}
            for p in ("zoneinfo", "pytz") for z in FOLDS for src in ("zoneinfo", "dateutil") for w in ("ack", "snooze")
            for o in ([0, 1], [1, 0], [1], [0], [0, 1, 0])] + \
           [{"kind": "fold-ack", "provider": p, "zone": z, "src": src, "what": "zoned-trigger", "order": o, "snooze_as": sa}
            for p in ("zoneinfo", "pytz") for z in FOLDS for src in ("zoneinfo", "dateutil") for sa in ("same-zone", "utc", "other-zone")
            for o in ([1], [0], [0, 1], [1, 0])]


LEVEL_TEXT = ("The finite decision table of all orderings (including equality) of the four instants, each possibly absent, across "
              "trigger kinds, wiring modes, local zone and providers is enumerated completely and compared with the predicate of "
              "the statement; random offsets add larger distances. Complete for the stated table, sampled beyond.")
