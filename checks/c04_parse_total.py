"""C04 - Parsing is total: a result or ValueError; VEVENT isolates bad property lines."""
import json
import os
import re
import subprocess
import sys
import time
import tempfile

from hypothesis import strategies as st

from vlib.runner import Failure, Stream, exc_signature, VERIF, REPO
from vlib import sut, trees as T
from vlib.model import ical_text as M

from checks.c01_parse_roundtrip import fixtures, mutate, TOKENS

from icalendar import Calendar, Component, Event

ID = "C04"
TECHNIQUE = "fuzzing by generation and mutation (iCalendar token soup, heavily mutated fixtures, structured hostile TZID / VTIMEZONE inputs; atheris coverage-guided bytes in the thorough tier) with a crash/termination oracle bucketed by (exception type, innermost frame), plus a metamorphic/differential isolation oracle for VEVENT"
RULE = ("(a) Hypothesis token soup from an iCalendar dictionary (BEGIN:/END: with known names, property names, TZID=, value fragments, "
        "delimiters, NUL, invalid UTF-8); (b) the 102 fixtures with 1-8 line/token mutations incl. truncation, duplicated singleton lines "
        "(second TZID), swapped/mismatched END names, nesting to depth 64; (c) structured hostile inputs: TZID values (directory names, "
        "'..', absolute paths, 300 characters, NUL, Windows names, '/'-prefixed), malformed VTIMEZONEs (missing DTSTART/TZOFFSET*, "
        "DATE-valued DTSTART, RRULE without FREQ / sub-daily FREQ, RDATE of dates or periods, equal TZNAMEs, +-24 h offsets, "
        "END:VTIMEZONE closing another component), periods mixing DATE and DATE-TIME; every case under both providers, single and "
        "multiple=True. O-total: from_ical -> to_ical of each result -> walk -> to_ical of each walked component raises nothing but "
        "ValueError and finishes within 10 CPU-seconds (confirmed in a fresh process with 20 s before it counts). O-isolate: for a "
        "well-formed calendar K with a VEVENT and a VTODO and a candidate line L, L is 'unparsable' iff inserting it into the VTODO "
        "makes the parse raise ValueError; then inserting L anywhere among the VEVENT's own lines must succeed, leave every "
        "component's extraction equal to K's and add exactly one entry to that event's error list (none elsewhere); a parsable L "
        "must add no error entry; inside a VALARM nested in the VEVENT an unparsable L makes the parse fail; a line without any "
        "property name (no word character, or starting with a delimiter) must be unparsable; whatever the VEVENT variant returns "
        "must serialise. Non-trivial: input that "
        "gets past the BEGIN of one component; distinct by hash of the input.")
ASSUMPTIONS = ["inputs <= 8 KiB, nesting <= 64", "a CPU-time bound stands for 'terminates'"]
REQUIRED_CLASSES = ["gen:soup", "gen:fixture", "gen:hostile", "gen:isolate", "isolate:unparsable-line", "isolate:parsable-line", "hostile:tzid", "hostile:vtimezone", "hostile:extreme", "hostile:repetition", "config:python-O"]

SHRINK_STRINGS = True
TIMEOUT_S = 10.0


_REP_WHERE = {"between-lines", "value", "param-value", "quoted-param-value", "name", "param-name", "typed-value", "before-begin", "after-end"}


def _rep_lines(rep):
    if rep["where"] not in _REP_WHERE or not 0 <= rep["k"] <= 100000:
        raise ValueError("malformed case: repetition")
    k = min(rep["k"], 4000) if rep["tok"].startswith(("BEGIN:", "END:")) else rep["k"]      # deep nesting is RC-AP's; keep it cheap
    run, where = rep["tok"] * k, rep["where"]
    body = {"between-lines": ["SUMMARY:a" + run + "DESCRIPTION:b"], "value": ["SUMMARY:" + run], "param-value": ["SUMMARY;X-P=" + run + ":v"],
            "quoted-param-value": ['SUMMARY;X-P="' + run.replace('"', "'") + '":v'], "name": [run + ":v"], "param-name": ["SUMMARY;" + run + "=1:v"],
            "typed-value": [rep["typed"] + ":" + run], "before-begin": [], "after-end": []}[where]
    return ([run] if where == "before-begin" else []) + ["BEGIN:VCALENDAR", "BEGIN:VEVENT"] + body + ["END:VEVENT", "END:VCALENDAR"] + ([run] if where == "after-end" else [])


def the_input(case):
    g = case["gen"]
    if g == "soup":
        data = "".join(case["tokens"])
        if case.get("bad_utf8"):
            return data.encode("utf-8", "replace") + bytes(case["bad_utf8"])
        return data.encode("utf-8", "replace") if case.get("as_bytes", True) else data
    if g == "fixture":
        text = mutate(fixtures()[case["fixture"]], case["muts"])
        if case.get("truncate"):
            text = text[: max(0, len(text) - case["truncate"])]
        return text.encode("utf-8", "replace")
    if g == "hostile":
        lines = _rep_lines(case["rep"]) if "rep" in case else case["lines"]
        return "\r\n".join(lines).encode("utf-8", "replace") + b"\r\n"
    if g == "raw":
        import base64
        return base64.b64decode(case["b64"])
    raise ValueError(g)


def raw_case(data: bytes):
    """case for the atheris driver"""
    import base64
    return {"gen": "raw", "b64": base64.b64encode(data).decode("ascii")}


class _OwnCalendar(Calendar):
    """an application's subclass as entry point"""


def _entries():
    import icalendar
    return [Calendar, icalendar.cal.Component, icalendar.Event, icalendar.Todo, icalendar.Journal, icalendar.FreeBusy, icalendar.Timezone, icalendar.Alarm, _OwnCalendar]


def total(data, multiple, entry=0):
    """-> None | (stage, exception)"""
    try:
        # from_ical is one classmethod reachable through every component class: the input decides what comes back
        res = _entries()[entry % 9].from_ical(data, multiple=multiple)
    except ValueError:
        return None
    except Exception as e:  # noqa: BLE001
        return ("parse", e)
    comps = res if multiple else [res]
    for c in comps:
        try:
            c.to_ical()
        except ValueError:
            pass
        except Exception as e:  # noqa: BLE001
            return ("to_ical", e)
        try:
            walked = c.walk()
        except ValueError:
            continue
        except Exception as e:  # noqa: BLE001
            return ("walk", e)
        # serialising every walked component costs (number of components) x (size of its subtree): bound the harness's own work
        for w in (walked if len(walked) <= 200 else walked[:100] + walked[-100:]):
            try:
                w.to_ical()
            except ValueError:
                pass
            except Exception as e:  # noqa: BLE001
                return ("to_ical-walked", e)
    return None


def judge(case):
    if case.get("interp") == "-O":       # configuration: an interpreter without assert statements (child process)
        from vlib.runner import judge_under_python_O
        return judge_under_python_O("c04_parse_total", case, timeout=600)
    if case["gen"] == "isolate":
        return judge_isolate(case)
    data = the_input(case)
    fails = []
    for provider in sut.PROVIDERS:
        for multiple in (False, True):
            sut.reset(provider)
            t0 = time.process_time()
            r = total(data, multiple, (len(data) + (3 if multiple else 0) + (5 if provider == "pytz" else 0)) if case.get("vary_entry", True) else 0)
            if sys.flags.optimize and time.process_time() - t0 > 10:      # no watchdog in the -O child: same 10 CPU-second bound
                fails.append(Failure("C04.terminates", "takes-more-than-10-cpu-seconds", f"provider={provider}: {time.process_time() - t0:.0f} s input={data[:300]!r}"))
                return fails
            if r:
                stage, e = r
                fails.append(Failure("C04.total", f"{stage}-raises/" + exc_signature(e), f"provider={provider} multiple={multiple}: {e!r} input={data[:300]!r}"[:700]))
                break
    return fails


def on_timeout(case):
    """a case that exceeds the CPU bound is re-run in a fresh process with 20 s; only then it is a verdict"""

    with tempfile.NamedTemporaryFile("w", suffix=".json", delete=False) as f:
        json.dump({"case": case}, f)
        path = f.name
    code = ("import sys,json,resource;sys.path[:0]=[%r,%r,%r];resource.setrlimit(resource.RLIMIT_CPU,(20,22));"
            "from checks import c04_parse_total as m;m.judge(json.load(open(%r))['case'])") % (os.path.join(REPO, "src"), VERIF, os.path.join(VERIF, ".deps"), path)
    try:
        p = subprocess.run([sys.executable, "-c", code], stdout=subprocess.DEVNULL, stderr=subprocess.DEVNULL, timeout=60)
        slow = p.returncode != 0 and p.returncode in (-9, -24, 137, 152)
    except subprocess.TimeoutExpired:
        slow = True
    finally:
        os.unlink(path)
    if slow:
        return [Failure("C04.terminates", "does-not-terminate-within-20s", f"input={the_input(case)[:300]!r}")]
    return []


# ----------------------------------------------------------------------------- isolation oracle

K_EVENT = ["BEGIN:VEVENT", "UID:ev-1", "DTSTART;TZID=Europe/Berlin:20210302T101500", "SUMMARY:keep me", "CATEGORIES:a,b",
           "BEGIN:VALARM", "ACTION:DISPLAY", "TRIGGER:-PT15M", "END:VALARM", "RRULE:FREQ=DAILY;COUNT=3", "END:VEVENT"]
K_TODO = ["BEGIN:VTODO", "UID:todo-1", "DUE:20210303T000000Z", "SUMMARY:todo", "END:VTODO"]
K_HEAD = ["BEGIN:VCALENDAR", "VERSION:2.0", "PRODID:-//verif//c04"]
K_TAIL = ["END:VCALENDAR"]


def assemble(event_lines, todo_lines=None, head_extra=None, wrap=0):
    """the event may sit `wrap` levels deeper (inside X-WRAP components)"""
    ev = ["BEGIN:X-WRAP"] * wrap + event_lines + ["END:X-WRAP"] * wrap
    return ("\r\n".join(K_HEAD + (head_extra or []) + ev + (todo_lines or K_TODO) + K_TAIL) + "\r\n").encode("utf-8", "replace")


def _surely_invalid(line):
    """no property name by any reading: the line starts with a delimiter or has no word character at all (form feed, NBSP,
    U+2028 ...).  (A line with a name and parameters but no colon is *accepted* by this deliberately lax parser, so the absence
    of a colon is not used.)"""
    return line[:1] in (":", ";") or not re.search(r"\w", line)


def judge_isolate(case):
    line = case["line"]
    if line[:1] in (" ", "\t") or re.match(r"(?i)\s*(begin|end)\s*[:;]", line) or "\n" in line or "\r" in line or not line:
        raise ValueError("malformed case: candidate line would be a continuation / structure line")
    fails = []
    wrap = case.get("wrap", 0)
    for provider in sut.PROVIDERS:
        sut.reset(provider)
        base = Calendar.from_ical(assemble(K_EVENT, wrap=wrap))
        base_x = T.extract(base)
        # is L unparsable?  (in the strict VTODO)
        sut.reset(provider)
        try:
            Calendar.from_ical(assemble(K_EVENT, K_TODO[:2] + [line] + K_TODO[2:]))
            unparsable = False
        except ValueError:
            unparsable = True
        except Exception as e:  # noqa: BLE001
            fails.append(Failure("C04.total", "parse-raises/" + exc_signature(e), f"line in VTODO: {line!r}: {e!r}"[:400]))
            continue
        # lines that are not content lines by any reading (no name before the first delimiter, no word character)
        # must be unparsable - otherwise a parser that silently discards them would satisfy the metamorphic relation
        if _surely_invalid(line) and not unparsable:
            fails.append(Failure("C04.isolate", "invalid-line-silently-accepted-outside-lenient-component", f"{line!r}"))
        pos = [1, 2, 3, 4, 9, 10][case["pos"] % 6]          # among the event's own property lines, before and after its VALARM
        ev_lines = K_EVENT[:pos] + [line] + K_EVENT[pos:]
        sut.reset(provider)
        try:
            cal = Calendar.from_ical(assemble(ev_lines, wrap=wrap))
        except ValueError as e:
            if unparsable:
                fails.append(Failure("C04.isolate", "unparsable-line-in-VEVENT-fails-the-parse", f"{line!r}: {e}"[:300]))
            else:
                fails.append(Failure("C04.isolate", "line-accepted-in-VTODO-rejected-in-VEVENT", f"{line!r}: {e}"[:300]))
            continue
        except Exception as e:  # noqa: BLE001
            fails.append(Failure("C04.total", "parse-raises/" + exc_signature(e), f"line in VEVENT: {line!r}: {e!r}"[:400]))
            continue
        try:                                   # whatever was returned must serialise (totality on the result)
            cal.to_ical()
            for c in cal.walk():
                c.to_ical()
        except ValueError:
            pass
        except Exception as e:  # noqa: BLE001
            fails.append(Failure("C04.total", "to_ical-raises/" + exc_signature(e), f"line in VEVENT: {line!r}: {e!r}"[:400]))
        ev = cal.walk("VEVENT")[0]
        others = [c for c in cal.walk() if c is not ev]
        if unparsable:
            if len(ev.errors) != 1:
                fails.append(Failure("C04.isolate", "not-exactly-one-error-entry", f"{line!r}: {ev.errors!r}"[:300]))
            if any(c.errors for c in others):
                fails.append(Failure("C04.isolate", "error-recorded-on-another-component", f"{line!r}"))
            if T.extract(cal) != base_x:
                fails.append(Failure("C04.isolate", "other-properties-or-components-changed", f"{line!r}"))
            # strict nested component: must fail
            al = K_EVENT.index("ACTION:DISPLAY")
            sut.reset(provider)
            try:
                Calendar.from_ical(assemble(K_EVENT[:al] + [line] + K_EVENT[al:], wrap=wrap))
                fails.append(Failure("C04.isolate", "unparsable-line-accepted-in-VALARM", f"{line!r}"))
            except ValueError:
                pass
            except Exception as e:  # noqa: BLE001
                fails.append(Failure("C04.total", "parse-raises/" + exc_signature(e), f"line in VALARM: {line!r}: {e!r}"[:400]))
            # the same event as the outermost component (no VCALENDAR around it), through every entry point
            bare = ("\r\n".join(ev_lines) + "\r\n").encode("utf-8", "replace")
            sut.reset(provider)
            bare_base = T.extract(Event.from_ical(("\r\n".join(K_EVENT) + "\r\n").encode()))
            for entry, parse_bare in (("Event.from_ical", lambda: Event.from_ical(bare)), ("Calendar.from_ical-multiple", lambda: Calendar.from_ical(bare, multiple=True)[0]),
                                      ("Component.from_ical", lambda: Component.from_ical(bare))):
                sut.reset(provider)
                try:
                    bev = parse_bare()
                    if len(bev.errors) != 1 or any(c.errors for c in bev.walk() if c is not bev):
                        fails.append(Failure("C04.isolate", "not-exactly-one-error-entry/outermost-VEVENT", f"{entry} {line!r} pos={pos}: {bev.errors!r}"[:300]))
                    elif T.extract(bev) != bare_base:
                        fails.append(Failure("C04.isolate", "other-properties-or-components-changed/outermost-VEVENT", f"{entry} {line!r} pos={pos}"))
                except ValueError as e:
                    fails.append(Failure("C04.isolate", "unparsable-line-in-outermost-VEVENT-fails-the-parse", f"{entry} {line!r} pos={pos}: {e}"[:300]))
                except Exception as e:  # noqa: BLE001
                    fails.append(Failure("C04.total", "parse-raises/" + exc_signature(e), f"{entry} bare VEVENT: {line!r}: {e!r}"[:400]))
            # every other place that is not inside a lenient component: directly in the VCALENDAR after the event has been
            # closed, and at the top level before / after an outermost component (a bare VEVENT included)
            if not re.match(r"(?i)x-comment", line):
                full = assemble(K_EVENT, wrap=wrap).decode("utf-8").split("\r\n")[:-1]
                wrapped = ["BEGIN:X-WRAP"] * wrap + K_EVENT + ["END:X-WRAP"] * wrap
                places = {"in-VCALENDAR-after-the-event": (K_HEAD + wrapped + [line] + K_TODO + K_TAIL, Calendar, False),
                          "after-END-VCALENDAR": (full + [line], Calendar, False),
                          "before-BEGIN-VCALENDAR": ([line] + full, Calendar, False),
                          "after-outermost-VEVENT": (K_EVENT + [line], Event, False),
                          "after-outermost-VEVENT-multiple": (K_EVENT + [line] + K_TODO, Calendar, True),
                          "between-outermost-components": (K_TODO + [line] + K_EVENT, Calendar, True),
                          # a top-level X-COMMENT line is tolerated by the parser; what follows it is still outside every component
                          "after-a-top-level-X-COMMENT": (full + ["X-COMMENT:c", line], Calendar, False),
                          "after-a-leading-X-COMMENT-multiple": (["X-COMMENT:c"] + K_TODO + [line] + K_EVENT, Calendar, True)}
                for place, (lines, cls, multiple) in places.items():
                    sut.reset(provider)
                    try:
                        cls.from_ical(("\r\n".join(lines) + "\r\n").encode("utf-8", "replace"), multiple=multiple)
                        fails.append(Failure("C04.isolate", "unparsable-line-accepted-outside-lenient-component/" + place, f"{line!r}"))
                    except ValueError:
                        pass
                    except Exception as e:  # noqa: BLE001
                        fails.append(Failure("C04.total", "parse-raises/" + exc_signature(e), f"line {place}: {line!r}: {e!r}"[:400]))
        else:
            if ev.errors or any(c.errors for c in others):
                fails.append(Failure("C04.isolate", "parsable-line-recorded-as-error", f"{line!r}: {ev.errors!r}"[:300]))
    return fails


def info(case):
    classes = ["gen:" + case["gen"]]
    if case["gen"] == "isolate":
        sut.reset("zoneinfo")
        try:
            Calendar.from_ical(assemble(K_EVENT, K_TODO[:2] + [case["line"]] + K_TODO[2:]))
            classes.append("isolate:parsable-line")
        except Exception:  # noqa: BLE001
            classes.append("isolate:unparsable-line")
        return {"nontrivial": True, "classes": classes}
    data = the_input(case)
    if isinstance(data, str):
        data = data.encode("utf-8", "replace")
    if case["gen"] == "hostile":
        classes.append("hostile:" + case["what"])
        if case.get("interp"):
            classes.append("config:python-O")
    return {"nontrivial": bool(re.search(rb"(?i)begin\s*:\s*\w+\s*\n.", data, re.S)), "classes": classes}


# ----------------------------------------------------------------------------- known-finding region
def region_subdaily_vtimezone_rrule(case):
    """RC-F: a VTIMEZONE observance whose RRULE has a sub-daily FREQ is expanded occurrence by occurrence up to 2038."""
    if case["gen"] == "isolate":
        return False
    data = the_input(case)
    if isinstance(data, str):
        data = data.encode("utf-8", "replace")
    data = data.upper()
    return b"VTIMEZONE" in data and bool(re.search(rb"FREQ\s*=\s*(SECONDLY|MINUTELY|HOURLY)", data))


def region_sparse_subdaily_vtimezone_rrule(case):
    """RC-AN: a VTIMEZONE observance RRULE with a sub-daily FREQ *and* a BY... part: under pytz every period between DTSTART and
    2038 (or forever, with COUNT) is visited although the filter lets (almost) none pass - the bound on yielded transitions
    does not bound the work."""
    if case["gen"] == "isolate":
        return False
    data = the_input(case)
    if isinstance(data, str):
        data = data.encode("utf-8", "replace")
    data = data.upper()
    if b"VTIMEZONE" not in data:
        return False
    for m_ in re.finditer(rb"RRULE[^\r\n:]*:([^\r\n]*)", data):
        rule = m_.group(1)
        if re.search(rb"FREQ\s*=\s*(SECONDLY|MINUTELY|HOURLY)", rule) and re.search(rb"(^|;)\s*BY[A-Z]+\s*=", rule):
            return True
    return False


def region_deep_nesting(case):
    """RC-AP: components nested at least 150 levels deep (the parser keeps an explicit stack and accepts any depth; to_ical(),
    walk(), property_items() and == recurse once or more per level)"""
    if case["gen"] == "isolate":
        return False
    data = the_input(case)
    if isinstance(data, str):
        data = data.encode("utf-8", "replace")
    depth = deepest = 0
    for ln in data.upper().split(b"\n"):
        ln = ln.strip()
        if ln.startswith(b"BEGIN:") or ln.startswith(b"BEGIN;"):
            depth += 1
            deepest = max(deepest, depth)
        elif ln.startswith(b"END:") or ln.startswith(b"END;"):
            depth = max(0, depth - 1)
    return deepest >= 150


REGIONS = {"deep-nesting": region_deep_nesting, "subdaily-vtimezone-rrule": region_subdaily_vtimezone_rrule, "sparse-subdaily-vtimezone-rrule": region_sparse_subdaily_vtimezone_rrule}

# ----------------------------------------------------------------------------- strategies
COMPS = ["VCALENDAR", "VEVENT", "VTODO", "VJOURNAL", "VFREEBUSY", "VTIMEZONE", "STANDARD", "DAYLIGHT", "VALARM", "X-FOO"]
SOUP = ([f"BEGIN:{c}\r\n" for c in COMPS] + [f"END:{c}\r\n" for c in COMPS] +
        ["DTSTART", "DTEND", "DUE", "RDATE", "EXDATE", "RRULE", "FREEBUSY", "TZID", "TZOFFSETFROM", "TZOFFSETTO", "TZNAME", "TRIGGER", "DURATION",
         "SUMMARY", "CATEGORIES", "GEO", "ATTENDEE", "X-COMMENT", "RECURRENCE-ID", "DTSTAMP", "SEQUENCE", "UID",
         ":", ";", ",", "=", '"', "\\", "\r\n", "\n", "\r\n ", "\t", " ", "\x00", "TZID=", "VALUE=DATE", "VALUE=PERIOD", "VALUE=",
         "Europe/Berlin", "/Europe/Berlin", "Europe", "UTC", "custom", "W. Europe Standard Time",
         "20200101", "20200101T000000", "20200101T000000Z", "T", "Z", "/", "P1D", "PT1H", "-P", "+0100", "-0500", "+2400", "+0100/",
         "=,", ",,", ",:", "=;", '""', "P=a,", "URL:", "ATTACH:", "https://example.com/one\\ntwo", "\\n", "\\N", "\x0c", "\x0b", "\x1f", "\u00a0", "\u2028",
         "P99999999999W", "99991231T000000Z", "00010101T000000", "99991231T235959", "TZID=Europe/Berlin,Europe/Paris", "TZID=a,b", "-P99999999999D", "FREQ=YEARLY", "FREQ=SECONDLY", "FREQ=", "BYMONTH=", "BYMONTH=L", "BYDAY=", "UNTIL=", "INTERVAL=", ";", "BYDAY=-1SU", "BYMONTH=3", "UNTIL=20200101T000000Z", "COUNT=2", "1.5;2.5", "TRUE", "mailto:a@b",
         "é", "﻿", "%2C", "a", "1", "-"])
_soup = st.lists(st.one_of(st.sampled_from(SOUP), st.sampled_from(SOUP[:20]), st.characters(blacklist_categories=("Cs",))), max_size=60)


def soup_cases():
    return st.builds(lambda t, b, bad: {"gen": "soup", "tokens": t, "as_bytes": b, "bad_utf8": bad}, _soup, st.booleans(),
                     st.one_of(st.none(), st.none(), st.lists(st.integers(128, 255), min_size=1, max_size=3)))


@st.composite
def fixture_cases(draw):
    names = sorted(fixtures())
    ops = st.sampled_from(["del", "dup", "dup", "swap", "splice", "splice", "lower", "replace-line", "replace-line"])
    toks = st.sampled_from(TOKENS + ["END:VTIMEZONE", "END:VCALENDAR", "BEGIN:VTIMEZONE", "BEGIN:STANDARD", "END:STANDARD", "TZID:dup", "TZID:Europe",
                                     "RRULE:COUNT=3", "RRULE:FREQ=SECONDLY", "RRULE:FREQ=YEARLY;INTERVAL=0", "RRULE:FREQ=MINUTELY;INTERVAL=0", "DTSTART;VALUE=DATE:20200101", "TZOFFSETTO:+2400", "TZNAME:X", "END:VEVENT"])
    muts = draw(st.lists(st.tuples(ops, st.integers(0, 400), st.integers(0, 400), toks).map(list), min_size=1, max_size=8))
    return {"gen": "fixture", "fixture": draw(st.sampled_from(names)), "muts": muts, "truncate": draw(st.sampled_from([0, 0, 0, 1, 7, 40, 300]))}


HOSTILE_TZIDS = ["Europe", "..", "../../etc/passwd", "/etc/localtime", "/", "", " ", "a" * 300, "Europe/Berlin\x00", "\x00", "W. Europe Standard Time",
                 "/Europe/Berlin", "Europe/Berlin/", "posix/Europe/Berlin", "Etc", "America/Argentina", ".", "europe/berlin", "localtime", "Factory", "UTC\n",
                 "a/" * 100 + "b", "a/" * 3000 + "b", "x" * 255, "x" * 256, "\u00e9" * 128, "Europe/" + "y" * 256, "a/" * 20000 + "b"]


@st.composite
def hostile_cases(draw, only=None):
    what = draw(st.sampled_from(only or ["tzid", "vtimezone", "vtimezone", "period", "nesting", "extreme", "extreme", "vtimezone-edge", "repetition"]))
    if what == "repetition":
        # algorithmic complexity: one short token repeated thousands of times in every syntactic position (a parser that is
        # quadratic in such a run needs more than the 10 CPU-second bound for a few tens of kilobytes)
        tok = draw(st.sampled_from(["\n", "\r\n", "\r", " ", "\t", "\n ", "\r\n\t", ";", ":", ",", "=", '"', "\\", "\\,", "\\n", "a", "a=", ";a=b", ",a", '"a",', "%2C", "^n", "\u00e9", "\U0001F600",
                                    "BEGIN:X\r\n", "END:X\r\n", "X:\r\n", "-", "0", "P", "T", "Z", "/", "1W", "FREQ=DAILY;", "MO,", "1,"]))
        k = draw(st.sampled_from([2000, 20000, 40000, 60000]))
        where = draw(st.sampled_from(sorted(_REP_WHERE)))
        typed = draw(st.sampled_from(["DTSTART", "DURATION", "RRULE", "RDATE", "EXDATE", "FREEBUSY", "GEO", "TRIGGER", "CATEGORIES", "ATTACH;ENCODING=BASE64;VALUE=BINARY", "TZOFFSETFROM", "SEQUENCE"]))
        return {"gen": "hostile", "what": "repetition", "rep": {"tok": tok, "k": k, "where": where, "typed": typed}}
    if what == "vtimezone-edge":
        # complete, well-formed definitions whose fields sit at the ends of their ranges (the definition is *interpreted*)
        obs = []
        for _ in range(draw(st.integers(1, 3))):
            kind = draw(st.sampled_from(["STANDARD", "DAYLIGHT"]))
            body = [f"BEGIN:{kind}", "DTSTART:" + draw(st.sampled_from(["00010101T000000", "00010101T000000", "99991231T235959", "99991231T235959", "19700101T000000", "00011231T235959", "99990101T000000", "20380119T031408", "19700101T000000", "20370101T000000"])),
                    "TZOFFSETFROM:" + draw(st.sampled_from(["+0100", "-0100", "+1400", "-1200", "+0000", "+2359", "-2359", "+235959"])),
                    "TZOFFSETTO:" + draw(st.sampled_from(["+0100", "-0100", "+1400", "-1200", "+0000", "+2359", "-2359"]))]
            body += draw(st.lists(st.sampled_from(["TZNAME:X", "RRULE:FREQ=YEARLY;COUNT=3", "RRULE:FREQ=YEARLY;UNTIL=99991231T235959Z", "RRULE:FREQ=YEARLY;BYMONTH=12;BYDAY=-1SU",
                                                    "RDATE:99991231T235959", "RDATE:00010101T000000", "RRULE:FREQ=YEARLY;INTERVAL=5000",
                                                    # many recurrences of one observance next to few of the other (cost of pairing them up)
                                                    "RRULE:FREQ=DAILY", "RRULE:FREQ=DAILY", "RRULE:FREQ=WEEKLY", "RRULE:FREQ=DAILY;UNTIL=20371231T000000Z", "RRULE:FREQ=MONTHLY;BYMONTHDAY=1,15"]), max_size=2, unique=True))
            obs += body + [f"END:{kind}"]
        ev = ["BEGIN:VEVENT", "DTSTART;TZID=custom:" + draw(st.sampled_from(["20200101T120000", "00010101T000000", "99991231T235959"])), "END:VEVENT"]
        tzblock = ["BEGIN:VTIMEZONE", "TZID:custom"] + obs + ["END:VTIMEZONE"]
        lines = ["BEGIN:VCALENDAR"] + (ev + tzblock if draw(st.integers(0, 3)) == 0 else tzblock + ev) + ["END:VCALENDAR"]
        return {"gen": "hostile", "what": "vtimezone", "lines": lines}
    if what == "extreme":
        # typed values at and just beyond the ends of what Python's date/time types can represent
        n = draw(st.sampled_from([999999997, 999999998, 999999999, 1000000000, 142857142, 142857143, 99999999999]))
        unit = draw(st.sampled_from(["D", "W", "DT1S", "DT23H59M59S", "DT24H", "DT86399S", "DT86400S"]))
        if unit == "W":
            n = draw(st.sampled_from([142857141, 142857142, 142857143, n]))
        dur = draw(st.sampled_from(["", "-", "+"])) + f"P{n}{unit}"
        edge_dt = draw(st.sampled_from(["00010101T000000", "00010101T000000Z", "99991231T235959", "99991231T235959Z", "00010101", "99991231", "00010102T000000Z", "99991230T235959Z"]))
        small = draw(st.sampled_from(["P1D", "-P1D", "PT1S", "-PT1S", "P1W", "-P2D", dur]))
        zone = draw(st.sampled_from(["Europe/Berlin", "Pacific/Kiritimati", "Pacific/Niue", "America/New_York", "UTC", "Etc/GMT+12", "Etc/GMT-14"]))
        body = [f"DURATION:{dur}", f"DTSTART:{edge_dt}"]
        alarm = ["BEGIN:VALARM", "ACTION:DISPLAY", f"TRIGGER:{draw(st.sampled_from([dur, small]))}", f"DURATION:{draw(st.sampled_from([dur, small]))}", "REPEAT:2", "END:VALARM"]
        extra = draw(st.lists(st.sampled_from([
            f"RDATE;VALUE=PERIOD:{edge_dt}/{small}", f"RDATE;VALUE=PERIOD:{edge_dt}/{dur}", f"FREEBUSY:{edge_dt}/{small}", f"EXDATE;TZID={zone}:{edge_dt.rstrip('Z')}",
            f"RECURRENCE-ID;TZID={zone}:{edge_dt.rstrip('Z')}", f"DTEND;TZID={zone}:{edge_dt.rstrip('Z')}", f"DUE:{edge_dt}", f"TRIGGER;VALUE=DATE-TIME:{edge_dt}",
            f"RRULE:FREQ=YEARLY;UNTIL={edge_dt}", "RRULE:FREQ=DAILY;COUNT=99999999999999999999", "RRULE:FREQ=DAILY;INTERVAL=99999999999999999999", "SEQUENCE:99999999999999999999999999",
            "PRIORITY:-99999999999999999999", "GEO:1e400;-1e400", "GEO:nan;inf", "PERCENT-COMPLETE:1e3", "TZOFFSETFROM:+9959", "TZOFFSETTO:-995959", "X-A;VALUE=FLOAT:1e999",
            "X-B;VALUE=UTC-OFFSET:+2360", "X-C;VALUE=DURATION:" + dur, "X-D;VALUE=PERIOD:" + edge_dt + "/" + dur, "X-E;VALUE=DATE-TIME:" + edge_dt, "X-F;VALUE=TIME:240000", "X-G;VALUE=TIME:235960Z",
            # values of one date/time type where another is usual: the combined decoder accepts them, every consumer must cope
            "RRULE:FREQ=DAILY;UNTIL=120000Z", "RRULE:FREQ=DAILY;UNTIL=120000", "RRULE:FREQ=DAILY;UNTIL=P1D", "RRULE:FREQ=DAILY;UNTIL=20200101T000000Z/PT1H",
            "DTSTART:120000Z", "DTEND:120000", "EXDATE:120000Z", "RDATE:120000Z,20200101", "DUE:PT1H", "RECURRENCE-ID:-P1D", "TRIGGER:120000Z", "TRIGGER:20200101",
            "DTSTAMP:20200101", "COMPLETED:120000Z", "CREATED:PT0S", "LAST-MODIFIED:20200101T000000/PT1H", "ACKNOWLEDGED:120000Z", "DURATION:20200101T000000Z",
            "FREEBUSY:PT1H", "REPEAT:-1", "TZOFFSETTO:+0000", "DTSTART;VALUE=PERIOD:20200101T000000Z/PT1H", "DTSTART;VALUE=DURATION:PT1H", "DTEND;VALUE=TIME:120000"]), max_size=4))
        comp = draw(st.sampled_from(["VEVENT", "VTODO", "VJOURNAL", "VFREEBUSY"]))
        lines = ["BEGIN:VCALENDAR", f"BEGIN:{comp}"] + body + extra + (alarm if comp in ("VEVENT", "VTODO") else []) + [f"END:{comp}", "END:VCALENDAR"]
        return {"gen": "hostile", "what": "extreme", "lines": lines}
    if what == "tzid":
        tzid = draw(st.sampled_from(HOSTILE_TZIDS)).replace("\n", "").replace("\r", "")
        prop = draw(st.sampled_from(["DTSTART", "DTEND", "RDATE", "EXDATE", "RECURRENCE-ID", "DUE"]))
        q = draw(st.booleans())
        tz = f'"{tzid}"' if q else tzid
        lines = ["BEGIN:VCALENDAR", "BEGIN:VEVENT", f"{prop};TZID={tz}:20200101T120000", "END:VEVENT", "BEGIN:VFREEBUSY",
                 f"FREEBUSY;TZID={tz}:20200101T120000/PT1H", "END:VFREEBUSY", "END:VCALENDAR"]
    elif what == "vtimezone":
        obs = []
        names = []
        for i in range(draw(st.integers(0, 3))):
            kind = draw(st.sampled_from(["STANDARD", "DAYLIGHT", "STANDARD", "X-OBS"]))
            body = [f"BEGIN:{kind}"]
            for ln in draw(st.lists(st.sampled_from([
                    "DTSTART:19701025T030000", "DTSTART;VALUE=DATE:19701025", "DTSTART:19701025T030000Z", "DTSTART:garbage", "TZOFFSETFROM:+0200",
                    "TZOFFSETTO:+0100", "TZOFFSETTO:+2400", "TZOFFSETFROM:-2359", "TZOFFSETFROM:+0200", "TZNAME:CET", "TZNAME:CET", "TZNAME:CEST",
                    "RRULE:FREQ=YEARLY;BYDAY=-1SU;BYMONTH=10", "RRULE:BYDAY=-1SU;BYMONTH=10", "RRULE:FREQ=YEARLY;UNTIL=19801025T010000Z;BYMONTH=10",
                    "RRULE:FREQ=YEARLY;COUNT=3", "RRULE:FREQ=SECONDLY", "RRULE:FREQ=HOURLY;INTERVAL=0", "RRULE:FREQ=YEARLY;INTERVAL=0;BYMONTH=10", "RDATE:19711025T030000", "RDATE;VALUE=DATE:19711025", "RDATE;VALUE=PERIOD:19711025T030000/PT1H",
                    "RRULE:FREQ=YEARLY", "X-FOO:bar", "COMMENT:x", "TZOFFSETTO:+0100", "DTSTART:19701025T030000",
                    # the ends of the representable range
                    "DTSTART:00010101T000000", "DTSTART:99991231T235959", "TZOFFSETFROM:+0100", "TZOFFSETFROM:-0100", "TZOFFSETTO:-1400", "TZOFFSETFROM:+1400",
                    "RDATE:00010101T000000", "RDATE:99991231T235959", "RRULE:FREQ=YEARLY;UNTIL=99991231T235959Z", "RRULE:FREQ=YEARLY;UNTIL=00010101T000000Z",
                    "RRULE:FREQ=YEARLY;COUNT=2", "DTSTART:00010101T000000", "DTSTART:99991231T235959"]), max_size=7)):
                body.append(ln)
            body.append(f"END:{kind}")
            obs += body
        tzids = draw(st.lists(st.sampled_from(["TZID:custom", "TZID:Europe/Berlin", "TZID:/custom", "TZID;X=1:custom2", "TZID:"]), max_size=2))
        closing = draw(st.sampled_from(["END:VTIMEZONE", "END:VTIMEZONE", "END:VEVENT", "end:vtimezone"]))
        opening = draw(st.sampled_from(["BEGIN:VTIMEZONE", "BEGIN:VTIMEZONE", "BEGIN:VEVENT", "BEGIN:X-TZ"]))
        use = draw(st.sampled_from(["custom", "custom2", "Europe/Berlin", "/custom"]))
        ev = ["BEGIN:VEVENT", f"DTSTART;TZID={use}:20200101T120000", "END:VEVENT"]
        tzblock = [opening] + tzids + obs + [closing]
        lines = ["BEGIN:VCALENDAR"] + (ev + tzblock if draw(st.booleans()) else tzblock + ev) + ["END:VCALENDAR"]
    elif what == "period":
        a = draw(st.sampled_from(["20200101", "20200101T000000", "20200101T000000Z", "2020", ""]))
        b = draw(st.sampled_from(["20200102", "20200102T000000", "20200102T000000Z", "PT1H", "P1D", "-PT1H", "x", ""]))
        lines = ["BEGIN:VCALENDAR", "BEGIN:VFREEBUSY", f"FREEBUSY:{a}/{b}", "END:VFREEBUSY", "BEGIN:VEVENT", f"RDATE;VALUE=PERIOD:{a}/{b}",
                 f"RDATE:{a}/{b},{b}/{a}", "END:VEVENT", "END:VCALENDAR"]
    else:
        d = draw(st.sampled_from([1, 8, 33, 64, 120, 300, 1000]))
        name = draw(st.sampled_from(["VEVENT", "VCALENDAR", "X-A", "VTIMEZONE", "VALARM"]))
        unbalanced = draw(st.sampled_from([0, 0, 1, -1]))
        lines = [f"BEGIN:{name}"] * d + ["SUMMARY:deep"] + [f"END:{name}"] * max(0, d + unbalanced)
    return {"gen": "hostile", "what": what if what in ("tzid", "vtimezone") else "other", "lines": lines}


BAD_LINES = ["\x0c", "\x0b", "\x1f", "\u00a0", "\u2028", "\x0c\x0c", "\u3000 ", "DURATION:P99999999999W", "RDATE;VALUE=PERIOD:99991231T000000Z/P5D",
             "DTSTART;TZID=Europe/Berlin,Europe/Paris:20200101T000000", "DTSTART;TZID=Europe/Berlin:00010101T000000", "DTEND;TZID=Pacific/Kiritimati:99991231T235959",
             "TRIGGER:-P99999999999D", "FREEBUSY:00010101T000000Z/-P1D", "EXDATE;TZID=a,b:20200101T000000", "RRULE:FREQ=YEARLY;BYMONTH=", "RRULE:FREQ=YEARLY;BYDAY=,", "RRULE:FREQ=;COUNT=", "RRULE:BYMONTH=L", "DTSTART:garbage", "DTSTART;TZID=Europe/Berlin:2021", "DTEND:20210230T000000", "DURATION:forever", "RRULE:FREQ=SOMETIMES", "GEO:1.0", "GEO:a;b",
             "PRIORITY:high", "SEQUENCE:1.5", "no colon here", ";=:", "X-A;P=\"unterminated:v", "X-A;=v:x", "X-A;P\x01=1:v", "X-A;P=a\x02b:v", ":value", "X-A;:v",
             "TRIGGER:soon", "EXDATE:20210101,notadate", "RDATE;VALUE=PERIOD:20210101T000000/x", "FREEBUSY:x/y", "TZOFFSETFROM:+25", "ATTACH;ENCODING=BASE64;VALUE=BINARY:%%%",
             # multi-valued lines whose FIRST items are fine and a later one is not: the line is dropped as a whole
             "FREEBUSY:20210101T000000Z/PT1H,garbage", "FREEBUSY;FBTYPE=BUSY:20210101T000000Z/20210101T010000Z,20210102T000000Z/x", "freebusy:20210101T000000Z/PT1H,",
             "FREEBUSY:20210101T000000Z/PT1H,20210102T000000Z/PT1H,20210103T000000Z/20210102T000000Z", "RDATE;VALUE=PERIOD:20210101T000000Z/PT1H,20210102T000000Z/",
             "RDATE:20210101T000000,20219999T000000", "EXDATE;TZID=Europe/Berlin:20210101T000000,x", "RDATE;VALUE=DATE:20210101,2021010", "EXDATE:20210101T000000Z,20210101T000000Z,Z",
             "COMPLETED:2021-01-01", "DTSTART;VALUE=DATE:2021010", "X-A;P=1;P:v", "CREATED:99999999T999999Z", "RECURRENCE-ID:T", "DUE;TZID=:x", "REPEAT:x"]
GOOD_LINES = ["URL:https://example.com/one\\ntwo", "ATTACH:file:///C:\\notes\\new.txt", "TZURL:http://x/\\Nb\\;c\\,d", "DTSTART:00010101T000000", "DTSTART:99991231T235959Z",
              "ATTENDEE;CN=a,:mailto:a@example.com", "X-A;P=x,,y:v", "X-A;LANGUAGE=,:v", "X-A;P=,a;Q=:v", 'X-A;P="",b:v', "X-A:anything goes", "COMMENT:fine", "DTEND;TZID=Europe/Berlin:20210302T111500", "PRIORITY:5", "GEO:1.5;2.5", "EXDATE:20210101T000000Z",
              "X-B;P=1;Q=\"a:b\":v", "LOCATION:somewhere\\, else", "URL:http://example.com/", "ATTENDEE;CN=A:mailto:a@example.com", "DESCRIPTION:", "X-C;P=:v",
              "RDATE;VALUE=DATE:20210101", "DURATION:PT1H", "STATUS:CONFIRMED", "COMPLETED:20210101T000000Z"]
_frag = st.sampled_from(["\x0c", "\u00a0", "99999999999", "0001", "9999", "URL", "\\n", ":", ";", "=", ",", ",", "=,", ",,", "P=", '"', "\\", "DTSTART", "X-", "garbage", "2021", "T", "Z", "P", "\x01", "\x7f", "é", " ", "TZID=Europe/Berlin", "VALUE=DATE", "a"])


def isolate_cases():
    line = st.one_of(st.sampled_from(BAD_LINES), st.sampled_from(GOOD_LINES),
                     st.lists(_frag, min_size=1, max_size=8).map("".join).filter(
                         lambda s: s[:1] not in (" ", "\t") and s.strip() and not re.match(r"(?i)\s*(begin|end)\s*[:;]", s)))
    return st.builds(lambda l, p, w: {"gen": "isolate", "line": l, "pos": p, "wrap": w}, line, st.integers(0, 5), st.sampled_from([0, 0, 1, 2, 5]))


def streams(tier):
    n = 400 if tier == "quick" else 8000
    return [
        Stream("token-soup", "hyp", n, 12, soup_cases, timeout_s=10),
        Stream("mutated-fixtures", "hyp", n, 16, fixture_cases, timeout_s=10),
        Stream("structured-hostile", "hyp", n, 12, hostile_cases, timeout_s=10),
        Stream("isolation", "hyp", n // 2, 8, isolate_cases, timeout_s=10),
        Stream("every-property-name", "fixed", 0, 8, _name_sweep, True, False, timeout_s=10),
        Stream("hostile-under-python-O", "hyp", 30 if tier == "quick" else 200, 16, lambda: st.one_of(hostile_cases(), hostile_cases(only=["vtimezone", "vtimezone-edge", "vtimezone-edge"]), hostile_cases(only=["vtimezone-edge"]), isolate_cases()).map(lambda c: dict(c, interp="-O")), timeout_s=600),
    ] + ([Stream("atheris-bytes", "custom", 0, 8, _atheris, timeout_s=10),
          # expensive (each case runs into the watchdog and is confirmed in a fresh process): thorough tier only
          Stream("sparse-subdaily-vtimezone-rules", "hyp", 2, 8, _sparse_rule_cases, timeout_s=10)] if tier == "thorough" else [])


@st.composite
def _sparse_rule_cases(draw):
    rule = draw(st.sampled_from(["FREQ=HOURLY;BYSETPOS=54", "FREQ=SECONDLY;BYHOUR=2;BYSETPOS=24", "FREQ=MINUTELY;BYMONTH=2;BYMONTHDAY=30", "FREQ=HOURLY;BYMONTHDAY=31;BYMONTH=2;COUNT=2",
                                 "FREQ=SECONDLY;BYYEARDAY=-100;INTERVAL=366"]))
    start = draw(st.sampled_from(["00010101T000000", "16010101T000000", "19700101T000000"]))
    lines = ["BEGIN:VCALENDAR", "BEGIN:VTIMEZONE", "TZID:custom", "BEGIN:STANDARD", "DTSTART:19700101T000000", "TZOFFSETFROM:+0100", "TZOFFSETTO:+0200", "END:STANDARD",
             "BEGIN:DAYLIGHT", f"DTSTART:{start}", "TZOFFSETFROM:+0100", "TZOFFSETTO:+0200", f"RRULE:{rule}", "END:DAYLIGHT", "END:VTIMEZONE", "END:VCALENDAR"]
    return {"gen": "hostile", "what": "vtimezone", "lines": lines}


# property names of RFC 5545, 7986, 9073, 9074 and common extensions (own list) - plus whatever the library's own table names
IANA_NAMES = ["CALSCALE", "METHOD", "PRODID", "VERSION", "ATTACH", "CATEGORIES", "CLASS", "COMMENT", "DESCRIPTION", "GEO", "LOCATION", "PERCENT-COMPLETE",
              "PRIORITY", "RESOURCES", "STATUS", "SUMMARY", "COMPLETED", "DTEND", "DUE", "DTSTART", "DURATION", "FREEBUSY", "TRANSP", "TZID", "TZNAME",
              "TZOFFSETFROM", "TZOFFSETTO", "TZURL", "ATTENDEE", "CONTACT", "ORGANIZER", "RECURRENCE-ID", "RELATED-TO", "URL", "UID", "EXDATE", "EXRULE", "RDATE",
              "RRULE", "ACTION", "REPEAT", "TRIGGER", "CREATED", "DTSTAMP", "LAST-MODIFIED", "SEQUENCE", "REQUEST-STATUS", "NAME", "REFRESH-INTERVAL", "SOURCE",
              "COLOR", "IMAGE", "CONFERENCE", "ACKNOWLEDGED", "PROXIMITY", "LOCATION-TYPE", "PARTICIPANT-TYPE", "RESOURCE-TYPE", "CALENDAR-ADDRESS",
              "STYLED-DESCRIPTION", "STRUCTURED-DATA", "BUSYTYPE", "TZUNTIL", "TZID-ALIAS-OF", "X-WR-CALNAME", "X-MOZ-LASTACK", "X-MOZ-SNOOZE-TIME", "X-ANYTHING"]


def _name_sweep():
    """every known property name x a few values x lenient and strict components: a table entry that names a missing type, or a
    type whose decoder lets another exception through, fails the totality clause for that one name"""
    try:
        from icalendar.prop import TypesFactory
        names = sorted(set(IANA_NAMES) | {str(k).upper() for k in TypesFactory.types_map})
    except Exception:  # noqa: BLE001
        names = IANA_NAMES
    out = []
    for nm in names:
        for value in ("x", "", "1", "20200101T000000Z", "mailto:a@example.com"):
            for comp in ("VEVENT", "VTODO", "VCALENDAR"):
                inner = [f"{nm}:{value}"] if comp == "VCALENDAR" else [f"BEGIN:{comp}", f"{nm.lower() if value == '1' else nm}:{value}", f"END:{comp}"]
                out.append({"gen": "hostile", "what": "name-sweep", "lines": ["BEGIN:VCALENDAR"] + inner + ["END:VCALENDAR"]})
    return out


def _atheris(ctx):
    from vlib import fuzz
    fuzz.campaign("checks.c04_parse_total", ctx, 150, use_corpus=ctx["shard"] % 4 != 3)     # every 4th campaign starts from an empty corpus


LEVEL_TEXT = ("Generation- and mutation-based fuzzing with a dictionary aimed at the fragile places (time-zone lookup and VTIMEZONE "
              "interpretation, periods, nesting), every input under both providers and both parse modes, escapes bucketed by root cause; "
              "the isolation clause is checked with a metamorphic relation that needs no own notion of 'bad line'. Coverage-guided "
              "byte fuzzing (atheris) runs in the thorough tier. No absence claim.")
