"""C07 - TEXT escaping is lossless for every string: alone, as property, in lists."""
import re

from hypothesis import strategies as st

from vlib.runner import Failure, Stream, exc_signature
from vlib import sut

from icalendar import Event, vText
from icalendar.prop import vCategory

ID = "C07"
ALPHA = ["\\", "n", "N", ";", ",", ":", '"', "%", "2", "C", "\r", "\n", " ", "a"]
A = len(ALPHA)

RULE = ("exhaustive enumeration of all strings over the 14-symbol critical alphabet "
        "{\\ n N ; , : \" % 2 C CR LF SP a} up to a length bound on three paths (vText codec with str and "
        "bytes input; add(name, s) -> to_ical -> from_ical for SUMMARY/DESCRIPTION/X-; CATEGORIES lists of "
        "1-3 items, codec and component path) plus a fixed sweep of 27 layer-special characters and strings (BOM, Unicode line separators, controls, non-NFC sequences) at start/middle/end on all paths, plus Hypothesis long Unicode strings (delimiter-biased, special characters leading). "
        "Oracle: decoded == s after the two documented normalisations (CRLF->LF, backslash-N->LF, either "
        "order); independent scanner over the encoded form (no LF, every ; and , preceded by an odd number "
        "of backslashes). Non-trivial: the string (or an item) contains one of \\ ; , CR LF; distinct by "
        "construction (enumeration) or by hash (Hypothesis).")
RULE += ' Rounds 7-8: escape sequences of neighbouring syntaxes (carets, percent escapes in both cases, quoted-printable, C escapes, entities), noncharacters / private-use / replacement characters among the specials.'
ASSUMPTIONS = ["vText/vCategory/Event API as imported from the working tree",
               "a lone CR is data, not a line break (RFC 5545 line break is CRLF)"]
REQUIRED_CLASSES = ["path:codec", "path:prop", "path:cat", "path:catcodec", "has-backslash", "has-crlf"]


# ----------------------------------------------------------------------------- enumeration helpers

def _sizes(maxlen):
    return [A ** k for k in range(maxlen + 1)]


def total(maxlen):
    return sum(_sizes(maxlen))


def nth_string(i, maxlen):
    for k, sz in enumerate(_sizes(maxlen)):
        if i < sz:
            chars = []
            for _ in range(k):
                i, r = divmod(i, A)
                chars.append(ALPHA[r])
            return "".join(chars)
        i -= sz
    raise IndexError(i)


# ----------------------------------------------------------------------------- oracle

def norms(s):
    """The set of acceptable decodings: the two documented normalisations, in either order."""
    a = s.replace("\\N", "\n").replace("\r\n", "\n")
    b = s.replace("\r\n", "\n").replace("\\N", "\n")
    return {a, b}


def scan_encoded(text, clause, allow_bare_comma=False):
    """Independent scanner of an encoded TEXT value."""
    out = []
    if "\n" in text:
        out.append(Failure(clause, "encoded-has-raw-linebreak", repr(text)[:200]))
    bs = 0
    for ch in text:
        if ch == "\\":
            bs += 1
            continue
        if ch == ";" or (ch == "," and not allow_bare_comma):
            if bs % 2 == 0:
                out.append(Failure(clause, f"encoded-has-unescaped-{'semicolon' if ch == ';' else 'comma'}",
                                   repr(text)[:200]))
                break
        bs = 0
    return out


def split_unescaped_commas(text):
    items, cur, bs = [], [], 0
    for ch in text:
        if ch == "," and bs % 2 == 0:
            items.append("".join(cur))
            cur = []
            bs = 0
            continue
        bs = bs + 1 if ch == "\\" else 0
        cur.append(ch)
    items.append("".join(cur))
    return items


def judge(case):
    sut.reset()
    path = case["path"]
    fails = []
    try:
        if path == "codec":
            s = case["s"]
            enc = vText(s).to_ical()
            if not isinstance(enc, bytes):
                return [Failure("C07.codec", "to_ical-not-bytes", repr(enc)[:100])]
            text = enc.decode("utf-8")
            fails += scan_encoded(text, "C07.encoded-form")
            for label, arg in (("str", text), ("bytes", enc)):
                dec = vText.from_ical(arg)
                if str(dec) not in norms(s):
                    fails.append(Failure("C07.codec", f"codec-roundtrip-differs/{label}",
                                         f"s={s!r} enc={text!r} dec={str(dec)!r}"))
        elif path == "prop":
            s, name = case["s"], case["name"]
            ev = Event()
            ev.add(name, s)
            raw = ev.to_ical()
            # the emitted value (unfolded) is scanned independently
            unf = raw.decode("utf-8").replace("\r\n ", "")
            lines = [ln for ln in unf.split("\r\n") if ln.upper().startswith(name.upper() + ":")]
            if len(lines) != 1:
                fails.append(Failure("C07.encoded-form", "prop-line-not-found-or-split", repr(unf)[:200]))
            else:
                fails += scan_encoded(lines[0][len(name) + 1:], "C07.encoded-form")
            ev2 = Event.from_ical(raw)
            v = ev2.get(name)
            if v is None:
                fails.append(Failure("C07.property-path", "prop-lost", f"s={s!r} errors={ev2.errors!r}"[:300]))
            elif isinstance(v, list) or str(v) not in norms(s):
                fails.append(Failure("C07.property-path", "prop-roundtrip-differs",
                                     f"s={s!r} line={lines[:1]!r} got={v!r}"[:400]))
            if len(ev2) != 1 or ev2.subcomponents:
                fails.append(Failure("C07.property-path", "prop-extra-structure", repr(ev2)[:200]))
        elif path == "catcodec":
            items = case["items"]
            # a category is its characters, whatever string type carries them (the library's typed strings, a str subclass)
            enc = vCategory([_ITYPES[(case.get("itypes") or [0])[i_ % len(case.get("itypes") or [0])] % len(_ITYPES)](x) for i_, x in enumerate(items)]).to_ical()
            text = enc.decode("utf-8")
            if "\n" in text:
                fails.append(Failure("C07.encoded-form", "encoded-has-raw-linebreak", repr(text)[:200]))
            if len(split_unescaped_commas(text)) != len(items):
                fails.append(Failure("C07.encoded-form", "cat-encoded-item-count", f"{items!r} -> {text!r}"))
            for it in split_unescaped_commas(text):
                fails += scan_encoded(it, "C07.encoded-form")
            dec = vCategory.from_ical(text)
            if not _items_ok(dec, items):
                fails.append(Failure("C07.list-codec", "cat-codec-roundtrip-differs",
                                     f"items={items!r} enc={text!r} dec={list(dec)!r}"[:400]))
        elif path == "cat":
            items = case["items"]
            ev = Event()
            ev.add("categories", items)
            raw = ev.to_ical()
            ev2 = Event.from_ical(raw)
            v = ev2.get("categories")
            if v is None:
                fails.append(Failure("C07.list-path", "cat-lost", f"items={items!r} errors={ev2.errors!r}"[:300]))
            else:
                got = [str(c) for c in getattr(v, "cats", v)]
                if not _items_ok(got, items):
                    fails.append(Failure("C07.list-path", "cat-roundtrip-differs",
                                         f"items={items!r} raw={raw!r} got={got!r}"[:400]))
        else:
            raise ValueError(path)
    except Exception as e:  # the codec must accept every string
        fails.append(Failure(f"C07.{path}-raises", "raises/" + exc_signature(e), f"{case!r}: {e!r}"[:300]))
    return fails


def _items_ok(got, items):
    got = [str(g) for g in got]
    return len(got) == len(items) and all(g in norms(i) for g, i in zip(got, items))


CRIT = re.compile(r"[\\;,\r\n]")


def info(case):
    strings = [case["s"]] if "s" in case else case["items"]
    joined = "\x00".join(strings)
    classes = ["path:" + case["path"]]
    if "\\" in joined:
        classes.append("has-backslash")
    if "\r\n" in joined:
        classes.append("has-crlf")
    if any(len(s) > 100 for s in strings):
        classes.append("long>100")
    return {"nontrivial": bool(CRIT.search(joined)), "classes": classes}


# ----------------------------------------------------------------------------- known-finding regions

_RCB = re.compile(r"\\(?:[\\;,nN:\n]|\r\n)|%2C|%3A|%3B|%5C")


def region_rcb_text(case):
    """RC-B: Contentline.parts() removes one escaping level from the value (and maps %2C/%3A/%3B/%5C) before the
    TEXT decoder runs.  Input region: property/list path and the string contains a backslash followed by one of
    \\ ; , n N : LF CRLF  or a literal placeholder; for lists additionally any item containing a comma."""
    if case["path"] == "prop":
        return bool(_RCB.search(case["s"]))
    if case["path"] == "cat":
        # in a list the separator follows the item, so a backslash anywhere in an item can pair with it
        return any(_RCB.search(i) or "," in i or "\\" in i for i in case["items"])
    return False


SHRINK_STRINGS = True
REGIONS = {"rcb-text-value": region_rcb_text}


# ----------------------------------------------------------------------------- streams

# characters that are special to *some* layer (BOM, Unicode line boundaries for str.splitlines, C0/C1 controls)
SPECIALS = ["\ufeff", "\u2028", "\u2029", "\x85", "\x0b", "\x0c", "\x1c", "\x1d", "\x1e", "\x00", "\x7f", "\t", "\r",
            "\ufffe", "\uffff", "\U0010ffff", "\u00a0", "\u200b",
            # strings that are not in Unicode normal form C (a codec must not normalise): decomposed accents, compatibility
            # singletons, conjoining jamo, composition exclusions
            "e\u0301", "u\u0308", "\u212b", "\u2126", "\u1100\u1161", "\u0958", "a\u0323\u0307", "\ufb01", "\u1e9b\u0323",
            # escape sequences of neighbouring syntaxes (RFC 6868 carets, URL and quoted-printable, C and Python escapes, entities,
            # format directives): in a TEXT value they are plain characters
            "^n", "^^", "^'", "^", "O(2^n)", "^N", "%0A", "%0D%0A", "%5E", "%25", "=0D=0A", "=\r\n", "\\t", "\\0", "\\x41", "\\u0041", "\\'", '\\"',
            "&amp;", "&#10;", "&lt;", "{0}", "%s", "%(a)s", "$1", "\\1", "\\g<0>", "${x}",
            # the percent escapes of RC-B in lower and mixed case (ordinary URL-encoded text), double encoding, other codes
            "%2c", "%3a", "%3b", "%5c", "q=is%3apr+is%3amerged", "%2f", "%253A", "%3a%2c", "%22", "%22exact%20phrase%22",
            # code points a 'cannot occur in text' placeholder scheme might pick: noncharacters, private use, replacement and object
            # replacement characters, C0/C1 controls
            "\ufdd0", "\ufdd1", "\ufdef", "\U0001fffe", "\U0001ffff", "\U0010fffe", "\ue000", "\uf8ff", "\U000f0000", "\ufffc", "\ufffd",
            "\x01", "\x02", "\x03", "\x1a", "\x1b", "\x1f", "\x80", "\x9f", "\u2060", "\U000e0001"]


def _special_cases():
    out = []
    for ch in SPECIALS:
        for s in (ch, ch + "hello", "hello" + ch, "he" + ch + "llo", ch + ";" + ch, ch * 2 + "\\" + ch, "a," + ch):
            out.append({"path": "codec", "s": s})
            out.append({"path": "prop", "name": "summary", "s": s})
            out.append({"path": "prop", "name": ["CONTACT", "REQUEST-STATUS", "RELATED-TO", "TZNAME", "RESOURCES", "COLOR"][len(s) % 6], "s": s})
            out.append({"path": "catcodec", "items": [s, "x"], "itypes": [len(out) % 6, 0]})
            out.append({"path": "cat", "items": ["x", s]})
    return out


def _fold_boundary_cases():
    """every layer-special character at every position around the first three fold points of a long property value (the value
    goes through folding and unfolding): one- and two-octet fillers shift the boundary through all alignments"""
    out = []
    for ch in ["\r", "\n", "\t", " ", "\\", ";", ",", ":", '"', "\u2028", "\x85", "\u00e9", "\U0001F600", "\r\r", " \r", "\r "]:
        for filler in ("a", "\u00e9"):
            width = len(filler.encode("utf-8"))
            for boundary in (75, 149, 223):
                for off in range(-14, 4):
                    pos = (boundary + off) // width
                    if pos < 0:
                        continue
                    s_ = filler * pos + ch + filler * 12
                    out.append({"path": "prop", "name": "summary", "s": s_})
                    if off % 5 == 0:
                        out.append({"path": "prop", "name": "REQUEST-STATUS", "s": s_})
                    if off % 3 == 0:
                        out.append({"path": "prop", "name": "X-VERIF-LONG-NAME", "s": s_})
                        out.append({"path": "cat", "items": [s_, "x"]})
    return out


_long_alpha = st.one_of(
    st.sampled_from(SPECIALS),
    st.sampled_from(ALPHA + ["\\", "\\", ";", ",", "\r\n", "\\n", "\\N", "%2C", "%5C", "\\\\"]),
    st.characters(blacklist_categories=("Cs",)),
)
long_text = st.tuples(st.sampled_from([""] * 6 + SPECIALS), st.lists(_long_alpha, min_size=0, max_size=400).map("".join)).map("".join)


def _hyp_cases():
    # every TEXT property of RFC 5545 (own list, not read from the library's tables) and extension names
    names = st.sampled_from(["summary", "description", "x-verif", "COMMENT", "location", "CONTACT", "REQUEST-STATUS", "RELATED-TO", "UID", "TZNAME", "STATUS", "TRANSP",
                             "CLASS", "ACTION", "PRODID", "VERSION", "CALSCALE", "METHOD", "RESOURCES", "X-WR-CALNAME", "NAME", "COLOR"])
    return st.one_of(
        st.builds(lambda s: {"path": "codec", "s": s}, long_text),
        st.builds(lambda s, n: {"path": "prop", "name": n, "s": s}, long_text, names),
        st.builds(lambda it, ty: {"path": "catcodec", "items": it, "itypes": ty}, st.lists(long_text, min_size=1, max_size=4), st.lists(st.integers(0, 5), min_size=1, max_size=4)),
        st.builds(lambda it: {"path": "cat", "items": it}, st.lists(long_text, min_size=1, max_size=4)),
    )


class _StrWithToIcal(str):
    def to_ical(self):
        return self.encode("utf-8")


def _typed(name):
    import icalendar
    import icalendar.prop
    return lambda x: getattr(icalendar.prop, name)(x)


_ITYPES = [str, _typed("vText"), _typed("vUri"), _typed("vCalAddress"), _typed("vInline"), _StrWithToIcal]


def _cat_case(i, path, l1, l2):
    """index -> item list: first all single items up to len l1, then all pairs of strings up to len l2."""
    t1, t2 = total(l1), total(l2)
    if i < t1:
        return {"path": path, "items": [nth_string(i, l1)]}
    i -= t1
    a, b = divmod(i, t2)
    return {"path": path, "items": [nth_string(a, l2), nth_string(b, l2)]}


def streams(tier):
    L_codec = 5 if tier == "quick" else 6
    L_prop = 4 if tier == "quick" else 5
    c1, c2 = (3, 2) if tier == "quick" else (4, 2)
    ncat = total(c1) + total(c2) ** 2
    hyp_n = 600 if tier == "quick" else 20000
    names = ["summary", "description", "x-verif"]
    out = [
        Stream("codec-exhaustive", "enum", total(L_codec), 16,
               lambda i: {"path": "codec", "s": nth_string(i, L_codec)}, True, True),
    ]
    for nm in names:
        out.append(Stream(f"prop-exhaustive-{nm}", "enum", total(L_prop), 16,
                          (lambda nm: lambda i: {"path": "prop", "name": nm, "s": nth_string(i, L_prop)})(nm),
                          True, True))
    # every other TEXT property name of RFC 5545 / 7986 (own list): the value type is chosen per name from a table
    for nm in ["CONTACT", "REQUEST-STATUS", "RELATED-TO", "UID", "LOCATION", "COMMENT", "STATUS", "TRANSP", "CLASS", "ACTION", "PRODID", "TZNAME", "RESOURCES", "NAME", "COLOR"]:
        out.append(Stream(f"prop-exhaustive-short-{nm}", "enum", total(3), 4,
                          (lambda nm: lambda i: {"path": "prop", "name": nm, "s": nth_string(i, 3)})(nm), True, True))
    out.append(Stream("catcodec-exhaustive", "enum", ncat, 8, lambda i: _cat_case(i, "catcodec", c1, c2), True, True))
    out.append(Stream("cat-exhaustive", "enum", ncat, 8, lambda i: _cat_case(i, "cat", c1, c2), True, True))
    out.append(Stream("special-characters", "fixed", 0, 2, _special_cases, True, False))
    out.append(Stream("specials-at-fold-boundaries", "fixed", 0, 4, _fold_boundary_cases, True, False))
    out.append(Stream("long-unicode", "hyp", hyp_n, 16, _hyp_cases))
    return out

TECHNIQUE = "exhaustive enumeration of the critical alphabet (<=5/6 chars) + Hypothesis long strings; round-trip oracle with independent escape scanner"
LEVEL_TEXT = ("Every string over the 14-symbol escape/delimiter alphabet up to length 5 (codec; 4 on the component paths; "
              "one more in thorough) is round-tripped on all paths, plus random long Unicode; this covers every "
              "combination of escape characters up to that length, which is where replace-chain bugs live. "
              "Longer-range interactions are sampled only.")
