"""C10 - Serialisation is deterministic, pure and insertion-order independent."""
import hashlib
import json
import os
import subprocess
import sys
from datetime import date

from hypothesis import strategies as st

from vlib.runner import Failure, Stream, exc_signature, VERIF, REPO
from vlib import sut, trees as T, values as V
from vlib.model.lineparse import parse_line, unfold, LineSyntaxError

from icalendar import Calendar
from icalendar.prop import vDatetime, vDate, vPeriod, vDDDLists, vRecur, vDDDTypes

ID = "C10"
TECHNIQUE = "Hypothesis-generated API programs with a generated permutation of the insertion history (metamorphic: same bytes), purity check via tree extraction before/after, order check with an independent line parser, and differential runs in child interpreters with different PYTHONHASHSEED"
RULE = ("Hypothesis: component trees built through the API (all value kinds, parameters with 2-3 names, repeated multi-valued "
        "properties, directly assigned typed values vDatetime/vDate/vPeriod/vDDDLists/vRecur with parts in any order) paired with a "
        "generated permutation of the insertion order of distinct property names and of parameter names (order within one name and "
        "of subcomponents kept). Oracles: (1) to_ical() twice gives identical bytes and the extracted tree (incl. every value's "
        "params) is unchanged by serialising; (2) sorted=True: original and permuted program give identical bytes; (3) "
        "sorted=False: read with the reference line parser, property lines of every component appear in first-insertion order of "
        "names with repeats in insertion order, user parameters in insertion order; repeats and subcomponents keep insertion "
        "order under both flags; (4) BEGIN/END balanced and properly nested; (5) the same programs (incl. add_missing_timezones "
        "with >= 2 used zone ids) run in child interpreters with PYTHONHASHSEED in {0,1,2,3,4242} give identical bytes. "
        "Non-trivial: >= 3 distinct property names and a value with >= 2 parameters (for (5): >= 2 zone ids); distinct by hash.")
ASSUMPTIONS = ["a sample of hash seeds stands for 'whatever the hash seed'", "texts contain no backslash (RC-B is not a C10 matter)"]
REQUIRED_CLASSES = ["multi-param", "repeated-property", "direct-typed-value", "hashseed-compared", "add-missing-timezones", "nested", "hashseed:mixed-kind-list", "hashseed:general-program", "hashseed:tzinfo-without-id"]

HASHSEEDS = ["0", "1", "2", "3", "4242"]


def build(case, tree=None, provider=None):
    provider = provider or case.get("provider", "zoneinfo")
    root = T.build(tree or case["tree"], provider)
    comps = root.walk()
    for d in case.get("direct", []):
        c = comps[d["node"] % len(comps)]
        v = T.dec_value(d["spec"], provider)
        kind = d["cls"]
        if kind == "vDatetime":
            obj = vDatetime(v)
        elif kind == "vDate":
            obj = vDate(v)
        elif kind == "vPeriod":
            obj = vPeriod(v)
        elif kind == "vDDDLists":
            obj = vDDDLists(v)
        elif kind == "bare-params":        # the typed value with every derived parameter removed again
            obj = vDDDTypes(v)
            obj.params.clear()
        elif kind == "vRecur":
            obj = vRecur(v)
        elif kind == "vRecur-setitem":     # rule parts assigned one by one after construction (scalars stay scalars)
            obj = vRecur()
            for rk, rv in v.items():
                obj[rk] = rv
        else:
            obj = vDDDTypes(v)
        c[d["name"]] = obj
    return root


def permute_tree(tree, keys, off=0):
    """same content, distinct property names and parameter names inserted in another order"""
    k = keys or [0]
    names = []
    for p in tree["p"]:
        if p[0].upper() not in names:
            names.append(p[0].upper())
    order = sorted(range(len(names)), key=lambda i: (k[(off + i) % len(k)], i))
    props = []
    for i in order:
        for p in tree["p"]:
            if p[0].upper() == names[i]:
                q = list(p)
                if len(q) > 2 and q[2]:
                    items = list(q[2].items())
                    items = [items[j] for j in sorted(range(len(items)), key=lambda j: (k[(off + 5 + j) % len(k)], -j))]
                    q[2] = dict(items)
                props.append(q)
    return {"c": tree["c"], "p": props, "s": [permute_tree(s, keys, off + 3 * i + 1) for i, s in enumerate(tree["s"])]}


def scan_blocks(raw):
    """-> (error | None, [(component name, [property line names in order], [[param names] per line])]) in BEGIN order"""
    lines = unfold(raw)
    stack, done = [], []
    for ln in lines:
        try:
            name, params, value = parse_line(ln)
        except LineSyntaxError as e:
            return f"line not RFC grammar: {ln[:60]!r}: {e}", done
        u = name.upper()
        if u == "BEGIN":
            blk = [value.upper(), [], []]
            stack.append(blk)
            done.append(blk)
        elif u == "END":
            if not stack or stack[-1][0] != value.upper():
                return f"END:{value} does not close {stack[-1][0] if stack else None}", done
            stack.pop()
        else:
            if not stack:
                return "property outside component", done
            stack[-1][1].append(u)
            stack[-1][2].append([p[0].upper() for p in params])
    if stack:
        return f"unclosed {stack[-1][0]}", done
    return None, done


def expected_order(tree, direct_by_node, idx=[0]):
    """first-insertion order of names, repeats grouped at the first occurrence (values accumulate under the first key)"""
    out = []

    def visit(t):
        i = len(out)
        names, counts = [], {}
        for p in t["p"]:
            u = p[0].upper()
            n = len(p[1]["v"]) if False else 1
            if u not in names:
                names.append(u)
            counts[u] = counts.get(u, 0) + n
        for d in direct_by_node.get(i, []):
            u = d["name"].upper()
            if u not in names:
                names.append(u)
            counts[u] = 1          # item assignment replaces
        out.append((t["c"].upper(), names, counts))
        for s in t["s"]:
            visit(s)
    visit(tree)
    return out


def judge(case):
    if case.get("mode") == "hashseed":
        return judge_hashseed([case])[0]
    provider = case.get("provider", "zoneinfo")
    sut.reset(provider)
    fails = []
    try:
        a = build(case)
        before = T.snapshot(a)      # does not call to_ical on the values
        s1 = a.to_ical()
        after1 = T.snapshot(a)
        s2 = a.to_ical()
        u1 = a.to_ical(sorted=False)
        after2 = T.snapshot(a)
        u2 = a.to_ical(sorted=False)
    except Exception as e:
        return [Failure("C10.serialise", "raises/" + exc_signature(e), repr(e)[:300])]
    if s1 != s2 or u1 != u2:
        fails.append(Failure("C10.deterministic", "second-serialisation-differs", f"{s1[:120]!r} vs {s2[:120]!r}"))
    if before != after1 or before != after2:
        fails.append(Failure("C10.pure", "serialisation-changes-the-tree", _diff(before, after2)))
    # fresh twin serialised once with sorted=False must equal u1 (no carry-over from the sorted run)
    try:
        sut.reset(provider)
        tw = build(case)
        if tw.to_ical(sorted=False) != u1:
            fails.append(Failure("C10.pure", "earlier-serialisation-influences-later-bytes", ""))
        if build(case).to_ical() != s1:
            fails.append(Failure("C10.deterministic", "rebuilt-tree-serialises-differently", ""))
    except Exception as e:
        fails.append(Failure("C10.serialise", "raises/" + exc_signature(e), repr(e)[:300]))
    # (2) insertion-order independence with sorting
    try:
        sut.reset(provider)
        ptree = permute_tree(case["tree"], case.get("perm") or [2, 0, 1])
        b = build(case, ptree)
        sp = b.to_ical()
        if sp != s1:
            fails.append(Failure("C10.order-independent", "sorted-bytes-depend-on-insertion-order", _first_line_diff(s1, sp)))
    except Exception as e:
        fails.append(Failure("C10.serialise", "raises/" + exc_signature(e), repr(e)[:300]))
    # (4) structure, (3) order with sorted=False
    for label, raw in (("sorted", s1), ("unsorted", u1)):
        err, blocks = scan_blocks(raw)
        if err:
            fails.append(Failure("C10.balanced", f"not-balanced-or-not-grammar/{label}", err))
            continue
        direct_by_node = {}
        ncomp = len(list(T.preorder(case["tree"])))
        for d in case.get("direct", []):
            direct_by_node.setdefault(d["node"] % ncomp, []).append(d)
        exp = expected_order(case["tree"], direct_by_node)
        if [b[0] for b in blocks] != [e[0] for e in exp]:
            fails.append(Failure("C10.subcomponent-order", f"components-not-in-insertion-order/{label}",
                                 f"{[b[0] for b in blocks]!r} vs {[e[0] for e in exp]!r}"))
            continue
        for (cname, got_names, got_params), (_, names, counts) in zip(blocks, exp):
            dedup = []
            for g in got_names:
                if not dedup or dedup[-1] != g:
                    dedup.append(g)
            if sorted(dedup) != sorted(names) or len(dedup) != len(set(dedup)):
                fails.append(Failure("C10.balanced", f"property-lines-lost-or-split/{label}", f"{cname}: {got_names!r} vs {names!r}"))
                break
            if label == "unsorted" and dedup != names:
                fails.append(Failure("C10.insertion-order", "unsorted-properties-not-in-insertion-order", f"{cname}: {dedup!r} vs {names!r}"))
                break
    # repeats keep insertion order (both flags) + user parameter order (unsorted): compare wire values per name with the program
    fails += _repeat_and_param_order(case, a, s1, u1)
    return fails


def _repeat_and_param_order(case, root, s1, u1):
    fails = []
    comps = root.walk()
    nodes = list(T.preorder(case["tree"]))
    for label, raw in (("sorted", s1), ("unsorted", u1)):
        lines = unfold(raw)
        # split lines per component in BEGIN order
        blocks, stack = [], []
        for ln in lines:
            up = ln.upper()
            if up.startswith("BEGIN:"):
                blk = []
                blocks.append(blk)
                stack.append(blk)
            elif up.startswith("END:"):
                if stack:
                    stack.pop()
            elif stack:
                stack[-1].append(ln)
        if len(blocks) != len(comps):
            continue
        for comp, node, blk in zip(comps, nodes, blocks):
            for name in comp.keys():
                vals = comp[name]
                vals = vals if isinstance(vals, list) else [vals]
                want = []
                for v in vals:
                    w = v.to_ical()
                    want.append(w.decode("utf-8") if isinstance(w, bytes) else str(w))
                got = []
                for ln in blk:
                    try:
                        n, ps, val = parse_line(ln)
                    except LineSyntaxError:
                        continue
                    if n.upper() == str(name).upper():
                        got.append(val)
                if got != want:
                    fails.append(Failure("C10.repeat-order", f"repeated-property-values-not-in-insertion-order/{label}",
                                         f"{name}: {got!r} vs {want!r}"[:400]))
                    return fails
            if label == "unsorted":
                for p in node["p"]:
                    if len(p) > 2 and p[2] and len(p[2]) >= 2 and sum(1 for q in node["p"] if q[0].upper() == p[0].upper()) == 1:
                        user = [k.upper() for k in p[2]]
                        for ln in blk:
                            try:
                                n, ps, val = parse_line(ln)
                            except LineSyntaxError:
                                continue
                            if n.upper() == p[0].upper():
                                got = [x[0].upper() for x in ps if x[0].upper() in user]
                                if sorted(got) == sorted(user) and got != user and len(set(user)) == len(user):
                                    fails.append(Failure("C10.insertion-order", "unsorted-parameters-not-in-insertion-order",
                                                         f"{ln[:120]!r}: {got!r} vs {user!r}"))
                                    return fails
                                break
    return fails


def _diff(a, b):
    if a[0] != b[0]:
        return f"name {a[0]} vs {b[0]}"
    da, db = {p[0]: p[1:] for p in a[1]}, {p[0]: p[1:] for p in b[1]}
    for k in sorted(set(da) | set(db)):
        if da.get(k) != db.get(k):
            return f"{a[0]}.{k}: {da.get(k)!r} -> {db.get(k)!r}"[:400]
    for x, y in zip(a[2], b[2]):
        if x != y:
            return _diff(x, y)
    return "?"


def _first_line_diff(a, b):
    la, lb = a.split(b"\r\n"), b.split(b"\r\n")
    for x, y in zip(la, lb):
        if x != y:
            return f"{x[:100]!r} vs {y[:100]!r}"
    return f"lengths {len(la)} vs {len(lb)}"


# ----------------------------------------------------------------------------- hash seed clause

def serialise_for_hashseed(case, variant=0):
    """runs in the child interpreters; odd variants insert distinct properties / parameters in another order"""
    provider = case.get("provider", "zoneinfo")
    sut.reset(provider)
    root = build(case, permute_tree(case["tree"], case.get("perm") or [1, 0], variant) if variant % 2 else None)
    if case.get("add_missing") and isinstance(root, Calendar):
        # a window of several years: the generated VTIMEZONEs then carry RDATE lists with several values
        root.add_missing_timezones(first_date=date(2012, 1, 1), last_date=date(2021, 1, 1))
    return {"sorted": hashlib.sha256(root.to_ical()).hexdigest(), "unsorted": hashlib.sha256(root.to_ical(sorted=False)).hexdigest(),
            "head": root.to_ical().decode("utf-8", "replace")[-400:], "order": [c.name + ":" + str(c.get("TZID", "")) for c in root.subcomponents][-6:]}


ERRORS = []     # programs that raised in a child (same error under every seed is not a failure, but it is reported)


def judge_hashseed(cases):
    """-> list of failure lists; spawns one child per hash seed for the whole batch"""
    results = {}
    for k, hs in enumerate(HASHSEEDS):
        # child k: hash seed HASHSEEDS[k]; odd k inserts distinct properties/parameters in another order; k = 2, 3 run the
        # batch in reverse order (another history of the same process-wide state before each program)
        env = dict(os.environ, PYTHONHASHSEED=hs, VERIF_REPO=REPO, VERIF_C10_VARIANT=str(k))
        p = subprocess.run([sys.executable, os.path.join(VERIF, "tools", "c10_child.py")], input=json.dumps(cases).encode(),
                           stdout=subprocess.PIPE, stderr=subprocess.PIPE, env=env, timeout=600)
        if p.returncode != 0:
            raise RuntimeError(f"child failed (hashseed {hs}): {p.stderr.decode()[-600:]}")
        results[hs] = json.loads(p.stdout)
    out = []
    for i, case in enumerate(cases):
        fl = []
        base = results[HASHSEEDS[0]][i]
        for hs in HASHSEEDS[1:]:
            r = results[hs][i]
            if "error" in r or "error" in base:
                ERRORS.append(str(base.get("error") or r.get("error"))[:120])
                if r != base:
                    fl.append(Failure("C10.hashseed", "child-error-differs", f"{base!r} vs {r!r}"[:300]))
                continue
            k = HASHSEEDS.index(hs)
            if r["sorted"] != base["sorted"] or (k % 2 == 0 and r["unsorted"] != base["unsorted"]):
                what = "bytes-depend-on-hash-seed" if k == 4 else "bytes-depend-on-process-history-or-insertion-order"
                fl.append(Failure("C10.hashseed", what, f"child 0 (seed {HASHSEEDS[0]}): {base['order']!r} {base['head']!r}; child {k} (seed {hs}): {r['order']!r} {r['head']!r}"[:600]))
                break
        out.append(fl)
    return out


def _hashseed_stream(ctx):
    import hypothesis
    from hypothesis import HealthCheck, Phase, given, settings
    col = ctx["collector"]
    n = 60 if ctx["tier"] == "quick" else 600
    batch = []

    @hypothesis.seed(ctx["seed"])
    @settings(max_examples=n, database=None, deadline=None, phases=[Phase.generate], suppress_health_check=list(HealthCheck))
    @given(hashseed_cases())
    def gen(case):
        batch.append(case)
    gen()
    verdicts = judge_hashseed(batch)
    if len(set(ERRORS)) and len(ERRORS) > 2 * len(batch):      # more than half of the programs raise: the stream tests nothing
        raise RuntimeError(f"hash-seed stream: most programs raise in the children: {sorted(set(ERRORS))[:3]!r}")
    col.classes["hashseed:program-raised-identically"] += len(ERRORS) // (len(HASHSEEDS) - 1)
    for case, fl in zip(batch, verdicts):
        col.evaluations += 1
        inf = info(case)
        for c in inf["classes"]:
            col.classes[c] += 1
        if inf["nontrivial"]:
            col.nontrivial += 1
            from vlib.runner import digest
            col.keys.add(digest(case))
            if len(col.samples) < 2:
                col.samples.append(case)
        for f in fl:
            b = col.buckets.setdefault(f.signature, {"clause": f.clause, "count": 0, "cases": []})
            b["count"] += 1
            if len(b["cases"]) < 3:
                b["cases"].append((len(json.dumps(case)), case, f.detail))


def info(case):
    nodes = list(T.preorder(case["tree"]))
    classes = []
    if case.get("mode") == "hashseed":
        classes.append("hashseed-compared")
        zones = set()
        for n in nodes:
            for p in n["p"]:
                if p[1]["k"] == "zoned":
                    zones.add(p[1]["tz"])
        if case.get("add_missing"):
            classes.append("add-missing-timezones")
        mixed = any(p[1]["k"] == "mixed" and len({q["k"] for q in p[1]["v"]}) >= 2 for n in nodes for p in n["p"])
        if mixed:
            classes.append("hashseed:mixed-kind-list")
        if "direct" in case:
            classes.append("hashseed:general-program")
        if any(p[1]["k"] == "fixed" for n in nodes for p in n["p"]):
            classes.append("hashseed:tzinfo-without-id")
        return {"nontrivial": len(zones) >= 2 or mixed or "direct" in case, "classes": classes}
    multi = any(len(p) > 2 and p[2] and len(p[2]) >= 2 for n in nodes for p in n["p"])
    if multi:
        classes.append("multi-param")
    if any(len({p[0].upper() for p in n["p"]}) < len(n["p"]) for n in nodes):
        classes.append("repeated-property")
    if case.get("direct"):
        classes.append("direct-typed-value")
    if len(nodes) > 1:
        classes.append("nested")
    distinct = max((len({p[0].upper() for p in n["p"]}) for n in nodes), default=0)
    return {"nontrivial": distinct >= 3 and multi, "classes": classes}


REGIONS = {}

# ----------------------------------------------------------------------------- strategies
_pnames = st.lists(st.sampled_from(["X-B", "x-a", "LANGUAGE", "X-c", "ALTREP", "CN"]), min_size=2, max_size=3, unique_by=lambda s: s.upper())


@st.composite
def _with_params(draw, tree):
    t = dict(tree)
    ps = []
    for p in tree["p"]:
        q = list(p[:2])
        if draw(st.integers(0, 2)) == 0:
            q.append({n: draw(st.sampled_from(["en", "x y", "a;b", "v1"])) for n in draw(_pnames)})
        ps.append(q)
    if draw(st.integers(0, 3)) == 0:
        # distinct RFC names that a normalising sort key could tie or reorder: hyphens, digits, common prefixes, vendor ids
        have = {p_[0].upper() for p_ in ps}
        for nm in draw(st.sampled_from([["X-AB", "X-A-B", "XAB"], ["X-N1", "X-N10", "X-N2"], ["X-ABC-FOO", "X-FOO", "X-XYZ-FOO"], ["X-A", "X-A-", "X-A--B"],
                                        ["X-0", "X-00", "X-9"], ["X-ITEM1-LABEL", "X-ITEM2-LABEL", "X-LABEL"]])):
            if nm.upper() not in have:
                ps.append([nm, {"k": "text", "v": "tie " + nm.lower()}])
    t["p"] = ps
    t["s"] = [draw(_with_params(s)) for s in tree["s"]]
    return t


_direct = st.one_of(
    st.builds(lambda n, s: {"node": n, "name": "DTSTART", "cls": "vDatetime", "spec": s}, st.integers(0, 9), st.one_of(V.s_zoned, V.s_utc, V.s_naive)),
    st.builds(lambda n, s: {"node": n, "name": "DTEND", "cls": "vDatetime", "spec": s}, st.integers(0, 9), V.s_zoned),
    st.builds(lambda n, s: {"node": n, "name": "DUE", "cls": "vDate", "spec": s}, st.integers(0, 9), V.s_date),
    st.builds(lambda n, s: {"node": n, "name": "FREEBUSY", "cls": "vPeriod", "spec": s}, st.integers(0, 9), T.s_value("period")),
    st.builds(lambda n, s: {"node": n, "name": "RDATE", "cls": "vDDDLists", "spec": s}, st.integers(0, 9), T.s_value("dates")),
    # values stored without the parameters add() would have derived (VALUE=DATE-TIME, VALUE=DATE ...): serialising must not patch them in
    st.builds(lambda n, s, c: {"node": n, "name": "TRIGGER", "cls": c, "spec": s}, st.integers(0, 9), V.s_utc, st.sampled_from(["vDatetime", "vDDDTypes"])),
    st.builds(lambda n, s, nm: {"node": n, "name": nm, "cls": "bare-params", "spec": s}, st.integers(0, 9), st.one_of(V.s_date, V.s_utc, V.s_zoned, T.s_value("period")),
              st.sampled_from(["TRIGGER", "DTSTART", "DTEND", "RDATE", "EXDATE", "DUE", "RECURRENCE-ID", "FREEBUSY", "X-TYPED"])),
    st.builds(lambda n, d, c: {"node": n, "name": "RRULE", "cls": c, "spec": {"k": "recur", "v": d}}, st.integers(0, 9),
              st.one_of(st.permutations([("COUNT", 3), ("FREQ", "DAILY"), ("BYDAY", ["MO", "TU"]), ("INTERVAL", 2), ("WKST", "SU")]).map(dict),
                        # an UNTIL in a real zone (serialising writes it in UTC; the stored value must stay what it was)
                        st.tuples(V.s_zoned, st.permutations([("FREQ", "WEEKLY"), ("BYDAY", ["FR"]), ("INTERVAL", 2)])).map(lambda t: dict(t[1] + [("UNTIL", t[0])]))),
              st.sampled_from(["vRecur", "vRecur-setitem"])),
)


def cases():
    tree = st.one_of(T.s_tree(2, 3, True, None, False), T.s_tree(2, 3, True, "VCALENDAR", False), T.s_tree(1, 2, True, "VEVENT", False)).flatmap(_with_params)
    return st.fixed_dictionaries({"provider": st.sampled_from(["zoneinfo", "pytz"]), "tree": tree,
                                  "perm": st.lists(st.integers(0, 6), min_size=2, max_size=6),
                                  "direct": st.lists(_direct, max_size=2, unique_by=lambda d: (d["node"], d["name"]))})


@st.composite
def hashseed_cases(draw):
    evs = []
    for _ in range(draw(st.integers(1, 4))):
        props = [["UID", {"k": "text", "v": "u"}]]
        for nm in draw(st.lists(st.sampled_from(["DTSTART", "DTEND", "RECURRENCE-ID"]), min_size=1, max_size=3, unique=True)):
            props.append([nm, {"k": "zoned", "v": [2020, draw(st.integers(1, 12)), 5, 10, 0, 0], "tz": draw(st.sampled_from(V.ZONES + ["Europe/London", "Asia/Tokyo"]))},
                          {n: "v" for n in draw(_pnames)}])
        props.append(["SUMMARY", {"k": "text", "v": draw(st.sampled_from(["a", "b", "Ünï"]))}])
        if draw(st.integers(0, 2)) == 0:   # tzinfo objects without a zone id; two of them may denote the same instant
            h, offs = draw(st.integers(6, 18)), draw(st.lists(st.sampled_from([0, 60, 120, -300, 330]), min_size=2, max_size=2))
            twin = [["UID", {"k": "text", "v": "t"}]]
            for nm, off in zip(draw(st.permutations(["DTSTART", "DTEND", "RECURRENCE-ID", "CREATED"]))[:2], offs):
                twin.append([nm, {"k": "fixed", "v": [2024, 6, 1, h + off // 60, off % 60, 0], "off": off}])
            evs.append({"c": "VEVENT", "p": twin, "s": []})
        if draw(st.integers(0, 1)):     # one list mixing value kinds: whatever is written must not depend on set order
            props.append([draw(st.sampled_from(["RDATE", "EXDATE"])),
                          {"k": "mixed", "v": draw(st.lists(st.one_of(V.s_date, V.s_naive, V.s_utc, V.s_zoned, T.s_value("period")), min_size=2, max_size=4))}])
        evs.append({"c": draw(st.sampled_from(["VEVENT", "VTODO"])), "p": props, "s": []})
    if draw(st.integers(0, 3)) == 0:    # any generated program of the main stream, replayed under every hash seed
        return dict(draw(cases()), mode="hashseed", add_missing=False)
    return {"mode": "hashseed", "provider": draw(st.sampled_from(["zoneinfo", "pytz"])), "add_missing": draw(st.sampled_from([True, True, False])),
            "perm": draw(st.lists(st.integers(0, 6), min_size=2, max_size=6)),
            "tree": {"c": "VCALENDAR", "p": [["PRODID", {"k": "text", "v": "x"}], ["VERSION", {"k": "text", "v": "2.0"}]], "s": evs}}


def streams(tier):
    n = 300 if tier == "quick" else 5000
    return [Stream("programs-with-permutation", "hyp", n, 14, cases), Stream("hash-seeds", "custom", 0, 2, _hashseed_stream, timeout_s=600)]


LEVEL_TEXT = ("Generated programs are serialised repeatedly, re-built with permuted insertion histories and run under five hash seeds in "
              "child interpreters; purity is observed by extracting the whole tree before and after. A sample of hash seeds and "
              "bounded trees, no absence claim.")
