"""C03 - Every typed value codec is its own inverse and emits RFC 5545 value grammar."""
import base64
import math
import re
from datetime import date, datetime, time, timedelta, timezone

from hypothesis import strategies as st

from vlib.runner import Failure, Stream, exc_signature
from vlib import sut

from icalendar.prop import (vBinary, vBoolean, vCalAddress, vDDDTypes, vDate, vDatetime, vDuration, vFloat, vFrequency, vGeo,
                            vInt, vMonth, vPeriod, vTime, vUTCOffset, vUri, vWeekday)

ID = "C03"
TECHNIQUE = "exhaustive finite sweeps (all dates, all seconds of a day, all whole-second UTC offsets, all durations within +-2 days) + Hypothesis values and constructive RFC-grammar texts with reference decoders"
RULE = ("Exhaustive blocks: every calendar date 0001-01-01..9999-12-31 (thorough; every 16th + all month ends in quick), every second "
        "of a day as TIME and as DATE-TIME on a leap day (naive and UTC), every whole-second UTC offset |o| < 24 h, every "
        "whole-second duration in +-2 days. Hypothesis: timedeltas over the full day range with carry-biased parts, integers "
        "(boundaries +-2^31, +-2^63, big), finite floats incl. powers of ten 1e-10..1e22, booleans, UTF-8 binary payloads, geo "
        "pairs, URI / CAL-ADDRESS strings, periods (explicit / duration, naive / UTC), weekday x ordinal x sign spelling, "
        "frequencies x case, months +-L; and grammar-valid TEXT of each type built constructively from the RFC ABNF together "
        "with the value the RFC assigns (own reference decoders) and the expected class for the combined decoder. Oracle: "
        "from_ical(to_ical(x)) == x, encoder output matches the harness regex of the RFC grammar, every grammar text decodes to "
        "the reference value, vDDDTypes.from_ical classifies it correctly. Excluded by construction: year 0000, second 60, "
        "-0000 offsets. Non-trivial: every value of the finite sweeps (distinct by construction); for Hypothesis cases distinct "
        "by hash; durations with >= 2 non-zero units or negative and floats outside [1e-4, 1e16) are counted as classes.")
RULE += " Rounds 7-8: DATE-TIME form #3 texts (local time + zone reference as id or tzinfo object, walls aimed at offset changes of ~600 zones; oracle RFC 5545 3.3.5 computed with the tz library itself; non-trivial when the wall time is repeated or skipped under some provider); instances of date/datetime/time/timedelta subclasses through vDDDTypes and the type's own encoder."
ASSUMPTIONS = ["leap second 60 and year 0000 are outside the domain (not representable in datetime)",
               "BINARY payloads are text (vBinary encodes str as UTF-8)"]
REQUIRED_CLASSES = ["twins:bool+float+int", "twins:month", "t:date", "t:datetime", "t:time", "t:offset", "t:duration", "t:period", "t:int", "t:float", "t:bool", "t:binary",
                    "t:geo", "t:uri", "t:caladdr", "t:weekday", "t:freq", "t:month", "t:text-duration", "t:text-datetime", "t:text-offset",
                    "t:text-period", "t:text-time", "float-outside-plain-range", "duration-multi-unit-or-negative"]

UTC = timezone.utc

# ----------------------------------------------------------------------------- RFC grammar (harness regexes)
_T = r"(?:\d+H(?:\d+M(?:\d+S)?)?|\d+M(?:\d+S)?|\d+S)"
G = {
    "date": r"\d{8}",
    "datetime": r"\d{8}T\d{6}Z?",
    "time": r"\d{6}Z?",
    "duration": rf"[+-]?P(?:\d+W|\d+D(?:T{_T})?|T{_T})",
    "offset": r"[+-]\d{4}(?:\d{2})?",
    "int": r"[+-]?\d+",
    "float": r"[+-]?\d+(?:\.\d+)?",
    "bool": r"TRUE|FALSE",
    "binary": r"(?:[A-Za-z0-9+/]{4})*(?:[A-Za-z0-9+/]{2}==|[A-Za-z0-9+/]{3}=)?",
    "weekday": r"(?:[+-]?\d{1,2})?(?:SU|MO|TU|WE|TH|FR|SA)",
    "freq": r"SECONDLY|MINUTELY|HOURLY|DAILY|WEEKLY|MONTHLY|YEARLY",
    "month": r"\d+L?",
}
G["geo"] = G["float"] + ";" + G["float"]
G["period"] = G["datetime"] + "/(?:" + G["datetime"] + "|" + G["duration"] + ")"


def txt(x):
    return x.decode("utf-8") if isinstance(x, bytes) else x


def _plain(v):
    if isinstance(v, datetime):
        return ("datetime", v.replace(tzinfo=None), None if v.tzinfo is None else v.utcoffset())
    if isinstance(v, time):
        return ("time", v.replace(tzinfo=None), v.tzinfo is not None)
    if isinstance(v, tuple):
        return tuple(_plain(x) for x in v)
    return (type(v).__name__, v)


def grammar(kind, enc, out, cls=None):
    t = txt(enc)
    if cls is not None and isinstance(enc, bytes):
        # the identity the module documents, taken literally: from_ical is handed exactly what to_ical returned (bytes for most
        # types) and gives what it gives for the same text as str
        try:
            via_str = ("ok", _plain(cls.from_ical(t)))
        except Exception as e:  # noqa: BLE001
            via_str = ("raises", type(e).__name__)
        try:
            literal = ("ok", _plain(cls.from_ical(enc)))
        except Exception as e:  # noqa: BLE001
            literal = ("raises", type(e).__name__)
        if literal != via_str and via_str[0] == "ok":
            out.append(Failure("C03.roundtrip", f"from_ical-of-the-bytes-to_ical-returned-differs/{cls.__name__}", f"{enc!r}: {literal!r}, from the same text as str: {via_str!r}"[:300]))
    if not isinstance(t, str) or not re.fullmatch(G[kind], t):
        out.append(Failure("C03.grammar", f"grammar/{kind}", f"{t!r}"))
    if kind == "offset" and t in ("-0000", "-000000"):
        out.append(Failure("C03.grammar", "grammar/offset-negative-zero", t))
    return t


def same_dt(a, b):
    """datetimes equal incl. awareness (aware ones: same instant and zero offset for UTC)"""
    if not isinstance(a, datetime) or not isinstance(b, datetime):
        return False
    if (a.tzinfo is None) != (b.tzinfo is None):
        return False
    if a.tzinfo is None:
        return a == b
    return a == b and a.utcoffset() == b.utcoffset()


# ----------------------------------------------------------------------------- judges per type

class _SubDate(date):
    pass


class _SubDatetime(datetime):
    pass


class _SubTime(time):
    pass


class _SubDelta(timedelta):
    pass


def j_combined_and_subclasses(x, t, what, out):
    """the combined encoder writes what the encoder of the type writes - also for an instance of a subclass (pandas.Timestamp,
    pendulum and freezegun types, a user's own class are datetime/date/timedelta by isinstance, not by type)"""
    t2 = txt(vDDDTypes(x).to_ical())
    if t2 != t:
        out.append(Failure("C03.roundtrip", f"roundtrip/{what}-via-vDDDTypes", f"{x!r}: {t!r} vs {t2!r}"))
    if what == "date":
        sub, cls = _SubDate(x.year, x.month, x.day), vDate
    elif what == "datetime":
        sub, cls = _SubDatetime(x.year, x.month, x.day, x.hour, x.minute, x.second, tzinfo=x.tzinfo), vDatetime
    elif what == "time":
        sub, cls = _SubTime(x.hour, x.minute, x.second, tzinfo=x.tzinfo), vTime
    else:
        sub, cls = _SubDelta(days=x.days, seconds=x.seconds), vDuration
    for how, enc in (("vDDDTypes", vDDDTypes), (cls.__name__, cls)):
        try:
            t3 = txt(enc(sub).to_ical())
        except Exception as e:  # noqa: BLE001
            t3 = "raises " + exc_signature(e)
        if t3 != t:
            out.append(Failure("C03.roundtrip", f"subclass-instance-encodes-differently/{what}/{how}", f"{sub!r}: {t3!r} expected {t!r}"))


def j_date(d, out):
    t = grammar("date", vDate(d).to_ical(), out, vDate)
    back = vDate.from_ical(t)
    if type(back) is not date or back != d:
        out.append(Failure("C03.roundtrip", "roundtrip/date", f"{d!r} -> {t!r} -> {back!r}"))
    c = vDDDTypes.from_ical(t)
    if type(c) is not date or c != d:
        out.append(Failure("C03.classify", "classify/date", f"{t!r} -> {c!r}"))
    if d.day in (1, 29) or d.toordinal() % 97 == 0:
        j_combined_and_subclasses(d, t, "date", out)
    else:
        t2 = txt(vDDDTypes(d).to_ical())
        if t2 != t:
            out.append(Failure("C03.roundtrip", "roundtrip/date-via-vDDDTypes", f"{t!r} vs {t2!r}"))


def j_datetime(dt, out):
    t = grammar("datetime", vDatetime(dt).to_ical(), out, vDatetime)
    if (dt.tzinfo is not None) != t.endswith("Z"):
        out.append(Failure("C03.grammar", "grammar/datetime-utc-marker", f"{dt!r} -> {t!r}"))
    back = vDatetime.from_ical(t)
    if not same_dt(back, dt):
        out.append(Failure("C03.roundtrip", "roundtrip/datetime", f"{dt!r} -> {t!r} -> {back!r}"))
    c = vDDDTypes.from_ical(t)
    if not same_dt(c, dt):
        out.append(Failure("C03.classify", "classify/datetime", f"{t!r} -> {c!r}"))
    if dt.second % 5 == 0:
        j_combined_and_subclasses(dt, t, "datetime", out)


def j_time(tm, out):
    t = grammar("time", vTime(tm).to_ical(), out, vTime)
    if (tm.tzinfo is not None) != t.endswith("Z"):
        out.append(Failure("C03.grammar", "grammar/time-utc-marker", f"{tm!r} -> {t!r}"))
    back = vTime.from_ical(t)
    if type(back) is not time or back.replace(tzinfo=None) != tm.replace(tzinfo=None) or (back.tzinfo is None) != (tm.tzinfo is None) \
            or (back.tzinfo is not None and back.utcoffset() != timedelta(0)):
        out.append(Failure("C03.roundtrip", "roundtrip/time", f"{tm!r} -> {t!r} -> {back!r}"))
    c = vDDDTypes.from_ical(t)
    if type(c) is not time or c.replace(tzinfo=None) != tm.replace(tzinfo=None):
        out.append(Failure("C03.classify", "classify/time", f"{t!r} -> {c!r}"))
    if tm.second % 5 == 0:
        j_combined_and_subclasses(tm, t, "time", out)


def j_offset(td, out):
    t = grammar("offset", vUTCOffset(td).to_ical(), out, vUTCOffset)
    back = vUTCOffset.from_ical(t)
    if back != td:
        out.append(Failure("C03.roundtrip", "roundtrip/offset", f"{td!r} -> {t!r} -> {back!r}"))


def j_duration(td, out):
    t = grammar("duration", vDuration(td).to_ical(), out, vDuration)
    back = vDuration.from_ical(t)
    if back != td:
        out.append(Failure("C03.roundtrip", "roundtrip/duration", f"{td!r} -> {t!r} -> {back!r}"))
    c = vDDDTypes.from_ical(t)
    if type(c) is not timedelta or c != td:
        out.append(Failure("C03.classify", "classify/duration", f"{t!r} -> {c!r}"))
    if ref_duration(t) != td:
        out.append(Failure("C03.grammar", "grammar/duration-denotes-other-value", f"{td!r} -> {t!r} denotes {ref_duration(t)!r}"))
    if td.seconds % 5 == 0:
        j_combined_and_subclasses(td, t, "duration", out)


def ref_duration(t):
    m = re.fullmatch(r"([+-]?)P(?:(\d+)W)?(?:(\d+)D)?(?:T(?:(\d+)H)?(?:(\d+)M)?(?:(\d+)S)?)?", t)
    if not m:
        return None
    s, w, d, h, mi, se = m.groups()
    td = timedelta(weeks=int(w or 0), days=int(d or 0), hours=int(h or 0), minutes=int(mi or 0), seconds=int(se or 0))
    return -td if s == "-" else td


# ----------------------------------------------------------------------------- block cases

def rfc_local(provider, zone, wall):
    """RFC 5545 3.3.5, form #3: the instant of a local time with time zone reference, from the tz library itself.  A local time that
    occurs twice is its first occurrence; one that does not occur is read with the UTC offset before the gap.  -> utcoffset"""
    naive = datetime(*wall)
    if provider == "pytz":
        import pytz
        tz = pytz.timezone(zone)
        a, b = tz.localize(naive, is_dst=True), tz.localize(naive, is_dst=False)
        try:
            return tz.localize(naive, is_dst=None).utcoffset(), "plain"
        except pytz.AmbiguousTimeError:
            return min(a, b).utcoffset(), "repeated"
        except pytz.NonExistentTimeError:
            return max(a, b).utcoffset(), "skipped"
    import zoneinfo
    d0, d1 = naive.replace(tzinfo=zoneinfo.ZoneInfo(zone)), naive.replace(tzinfo=zoneinfo.ZoneInfo(zone), fold=1)
    kind = "plain" if d0.utcoffset() == d1.utcoffset() else "repeated" if d0.utcoffset() > d1.utcoffset() else "skipped"
    return d0.utcoffset(), kind       # PEP 495 fold=0 is exactly the RFC's reading


def j_zoned_text(case, out):
    wall, zone = case["wall"], case["tz"]
    text = "%04d%02d%02dT%02d%02d%02d" % tuple(wall)
    for provider in sut.PROVIDERS:
        sut.reset(provider)
        want_off, kind = rfc_local(provider, zone, wall)
        via = case["via"]
        if case.get("tzarg") == "object":
            # the time zone reference given as a tzinfo object of the active provider's own library instead of its id
            import pytz
            import zoneinfo
            zone = pytz.timezone(zone) if provider == "pytz" else zoneinfo.ZoneInfo(zone)
            if via == "component":
                via = "vDDDTypes"
        if via == "vDatetime":
            got = vDatetime.from_ical(text, zone)
        elif via == "vDDDTypes":
            got = vDDDTypes.from_ical(text, zone)
        elif via == "vPeriod":
            got = vPeriod.from_ical(text + "/PT1H", zone)[0]
        else:
            from icalendar import Event
            got = Event.from_ical(f"BEGIN:VEVENT\r\nDTSTART;TZID={zone}:{text}\r\nEND:VEVENT\r\n")["DTSTART"].dt
        zone = case["tz"]
        tag = f"@{kind}-local-time/{provider}"
        if not isinstance(got, datetime) or got.tzinfo is None or got.replace(tzinfo=None) != datetime(*wall):
            out.append(Failure("C03.rfc-value" + tag, "zoned-text-wall-or-awareness-differs/" + via, f"{text!r} {zone}: {got!r}"))
        elif got.utcoffset() != want_off:
            out.append(Failure("C03.rfc-value" + tag, "zoned-text-is-another-instant", f"{provider} {via} {text!r} TZID={zone}: {got!r} has offset {got.utcoffset()}, RFC 5545 3.3.5 assigns {want_off}"))


def judge(case):
    sut.reset()
    out = []
    k = case["t"]
    if k == "zoned-text":
        try:
            j_zoned_text(case, out)
        except Exception as e:  # noqa: BLE001
            out.append(Failure("C03.rfc-value", "zoned-text-raises/" + exc_signature(e), f"{case!r}: {e!r}"[:300]))
        return out
    try:
        if k == "date-block":
            for o in range(case["from"], case["from"] + case["n"] * case["step"], case["step"]):
                if o > 3652059:
                    break
                j_date(date.fromordinal(o), out)
                if len(out) > 3:
                    break
        elif k == "date-list":
            for y, m, d in case["dates"]:
                j_date(date(y, m, d), out)
        elif k == "second-block":
            for s in range(case["from"], case["from"] + case["n"]):
                h, r = divmod(s, 3600)
                mi, se = divmod(r, 60)
                j_time(time(h, mi, se), out)
                j_datetime(datetime(2024, 2, 29, h, mi, se), out)
                j_datetime(datetime(2024, 2, 29, h, mi, se, tzinfo=UTC), out)
                if len(out) > 3:
                    break
        elif k == "offset-block":
            for s in range(case["from"], case["from"] + case["n"]):
                j_offset(timedelta(seconds=s), out)
                if len(out) > 3:
                    break
        elif k == "duration-block":
            for s in range(case["from"], case["from"] + case["n"]):
                j_duration(timedelta(seconds=s), out)
                if len(out) > 3:
                    break
        elif k == "duration":
            j_duration(timedelta(days=case["d"], seconds=case["s"]), out)
        elif k == "datetime":
            j_datetime(datetime(*case["v"], tzinfo=UTC if case["utc"] else None), out)
        elif k == "time":
            j_time(time(*case["v"], tzinfo=UTC if case["utc"] else None), out)
        elif k == "int":
            n = int(case["v"])
            t = grammar("int", vInt(n).to_ical(), out, vInt)
            b = vInt.from_ical(t)
            if b != n or not isinstance(b, int):
                out.append(Failure("C03.roundtrip", "roundtrip/int", f"{n} -> {t!r} -> {b!r}"))
        elif k == "float":
            x = float(case["v"])
            t = grammar("float", vFloat(x).to_ical(), out, vFloat)
            b = vFloat.from_ical(t)
            if not (b == x and math.copysign(1, b) == math.copysign(1, x)):
                out.append(Failure("C03.roundtrip", "roundtrip/float", f"{x!r} -> {t!r} -> {b!r}"))
        elif k == "bool":
            v = bool(case["v"])
            t = grammar("bool", vBoolean(v).to_ical(), out, vBoolean)
            if bool(vBoolean.from_ical(t)) is not v:
                out.append(Failure("C03.roundtrip", "roundtrip/bool", f"{v} -> {t!r}"))
        elif k == "binary":
            if "hex" in case:          # arbitrary octets (the point of BINARY), not only encoded text
                raw = bytes.fromhex(case["hex"])
                t = grammar("binary", vBinary(raw).to_ical(), out, vBinary)
                b = vBinary.from_ical(t)
                if b != raw or base64.b64decode(t) != raw:
                    out.append(Failure("C03.roundtrip", "roundtrip/binary-octets", f"{raw!r} -> {t!r} -> {b!r}"))
            else:
                s = case["v"]
                t = grammar("binary", vBinary(s).to_ical(), out, vBinary)
                b = vBinary.from_ical(t)
                if b != s.encode("utf-8") or base64.b64decode(t) != s.encode("utf-8"):
                    out.append(Failure("C03.roundtrip", "roundtrip/binary", f"{s!r} -> {t!r} -> {b!r}"))
        elif k == "geo":
            la, lo = float(case["lat"]), float(case["lon"])
            t = grammar("geo", vGeo((la, lo)).to_ical(), out, vGeo)
            b = vGeo.from_ical(t)
            if tuple(b) != (la, lo):
                out.append(Failure("C03.roundtrip", "roundtrip/geo", f"{(la, lo)!r} -> {t!r} -> {b!r}"))
        elif k in ("uri", "caladdr"):
            cls = vUri if k == "uri" else vCalAddress
            s = case["v"]
            t = txt(cls(s).to_ical())
            b = cls.from_ical(t)
            if t != s or str(b) != s or type(b) is not cls:
                out.append(Failure("C03.roundtrip", f"roundtrip/{k}", f"{s!r} -> {t!r} -> {b!r}"))
        elif k == "weekday":
            s = case["v"]
            w = vWeekday(s)
            t = grammar("weekday", w.to_ical(), out)
            b = vWeekday.from_ical(t)
            m = re.fullmatch(r"([+-]?)(\d{0,2})([A-Za-z]{2})", s)
            rel = int(m.group(2)) if m.group(2) else None
            if rel and m.group(1) == "-":
                rel = -rel
            if (b.weekday, b.relative) != (m.group(3).upper(), rel) or (w.weekday.upper(), w.relative) != (m.group(3).upper(), rel) or t != s.upper():
                out.append(Failure("C03.roundtrip", "roundtrip/weekday", f"{s!r} -> {t!r} -> {(b.weekday, b.relative)!r}"))
        elif k == "freq":
            s = case["v"]
            t = grammar("freq", vFrequency(s).to_ical(), out, vFrequency)
            b = vFrequency.from_ical(t)
            if t != s.upper() or str(b) != s.upper():
                out.append(Failure("C03.roundtrip", "roundtrip/freq", f"{s!r} -> {t!r} -> {b!r}"))
        elif k == "month":
            v = case["v"]
            mo = vMonth(v)
            t = grammar("month", mo.to_ical(), out)
            b = vMonth.from_ical(t)
            n, leap = (int(v.rstrip("L")), v.endswith("L")) if isinstance(v, str) else (v, False)
            if (int(b), bool(b.leap)) != (n, leap) or (int(mo), bool(mo.leap)) != (n, leap):
                out.append(Failure("C03.roundtrip", "roundtrip/month", f"{v!r} -> {t!r} -> {b!r}"))
        elif k == "period":
            start = datetime(*case["start"], tzinfo=UTC if case["utc"] else None)
            if "dur" in case:
                second = timedelta(seconds=case["dur"])
            else:
                second = start + timedelta(seconds=case["end_after"])
            t = grammar("period", vPeriod((start, second)).to_ical(), out, vPeriod)
            b = vPeriod.from_ical(t)
            ok = isinstance(b, tuple) and len(b) == 2 and same_dt(b[0], start) and \
                (b[1] == second if isinstance(second, timedelta) else same_dt(b[1], second))
            if not ok:
                out.append(Failure("C03.roundtrip", "roundtrip/period", f"{(start, second)!r} -> {t!r} -> {b!r}"))
            c = vDDDTypes.from_ical(t)
            if not (isinstance(c, tuple) and len(c) == 2 and same_dt(c[0], start)):
                out.append(Failure("C03.classify", "classify/period", f"{t!r} -> {c!r}"))
        elif k == "text":
            j_text(case, out)
        elif k == "twins":
            # history inside one process: values that compare and hash equal although they are different values of different
            # types (1, 1.0, True; month 5 and leap month 5L) are encoded one after the other; each must keep its own text
            for sub in case["items"]:
                if sub["t"] == "twins":
                    raise ValueError("malformed case: nested twins")
                out += judge(sub)
        else:
            raise ValueError(k)
    except Exception as e:
        out.append(Failure("C03.raises", f"raises/{k}/" + exc_signature(e), f"{case!r}: {e!r}"[:300]))
    return out[:6]


def j_text(case, out):
    """grammar-valid text with the RFC-assigned value (reference decoders are the constructors below)"""
    kind, t = case["kind"], case["text"]
    if not re.fullmatch(G[kind], t):
        raise ValueError("malformed case: text not in the grammar")
    # ABNF literals are case-insensitive (RFC 5234 2.3): the text is handed over in the spelling of the case - some of the letters
    # T Z P W D H M S in lower case - and denotes what the canonical spelling denotes
    sp = case.get("spelling", t)
    if sp.upper() != t:
        raise ValueError("malformed case: spelling")
    if kind == "duration":
        want = ref_duration(t)
        got = vDuration.from_ical(sp)
        ok = got == want
        c = vDDDTypes.from_ical(sp)
        cok = type(c) is timedelta and c == want
    elif kind == "offset":
        sign = -1 if t[0] == "-" else 1
        want = sign * timedelta(hours=int(t[1:3]), minutes=int(t[3:5]), seconds=int(t[5:7] or 0))
        got = vUTCOffset.from_ical(sp)
        ok = got == want
        cok = True
    elif kind == "datetime":
        want = datetime(int(t[0:4]), int(t[4:6]), int(t[6:8]), int(t[9:11]), int(t[11:13]), int(t[13:15]), tzinfo=UTC if t.endswith("Z") else None)
        got = vDatetime.from_ical(sp)
        ok = same_dt(got, want)
        c = vDDDTypes.from_ical(sp)
        cok = same_dt(c, want)
    elif kind == "date":
        want = date(int(t[0:4]), int(t[4:6]), int(t[6:8]))
        got = vDate.from_ical(sp)
        ok = type(got) is date and got == want
        c = vDDDTypes.from_ical(sp)
        cok = type(c) is date and c == want
    elif kind == "time":
        want = time(int(t[0:2]), int(t[2:4]), int(t[4:6]), tzinfo=UTC if t.endswith("Z") else None)
        got = vTime.from_ical(sp)
        ok = type(got) is time and got.replace(tzinfo=None) == want.replace(tzinfo=None) and (got.tzinfo is None) == (want.tzinfo is None)
        c = vDDDTypes.from_ical(sp)
        cok = type(c) is time and c.replace(tzinfo=None) == want.replace(tzinfo=None) and (c.tzinfo is None) == (want.tzinfo is None)
    elif kind == "int":
        want = int(t)
        got = vInt.from_ical(t)
        ok = got == want
        cok = True
    elif kind == "float":
        want = float(t)
        got = vFloat.from_ical(t)
        ok = got == want
        cok = True
    elif kind == "bool":
        got = vBoolean.from_ical(case.get("spelling", t))
        want = t == "TRUE"
        ok = bool(got) is want
        cok = True
    elif kind == "period":
        a, b = t.split("/")
        s = datetime(int(a[0:4]), int(a[4:6]), int(a[6:8]), int(a[9:11]), int(a[11:13]), int(a[13:15]), tzinfo=UTC if a.endswith("Z") else None)
        if b[0] in "+-P":
            e = ref_duration(b)
        else:
            e = datetime(int(b[0:4]), int(b[4:6]), int(b[6:8]), int(b[9:11]), int(b[11:13]), int(b[13:15]), tzinfo=UTC if b.endswith("Z") else None)
        want = (s, e)
        got = vPeriod.from_ical(sp)
        ok = isinstance(got, tuple) and same_dt(got[0], s) and (got[1] == e if isinstance(e, timedelta) else same_dt(got[1], e))
        c = vDDDTypes.from_ical(sp)
        cok = isinstance(c, tuple) and len(c) == 2 and same_dt(c[0], s)
    else:
        raise ValueError(kind)
    if not ok:
        out.append(Failure("C03.decode", f"decode/{kind}", f"{sp!r} -> {got!r}, RFC value {want!r}"))
    if not cok:
        out.append(Failure("C03.classify", f"classify/{kind}", f"{sp!r} -> {c!r}, RFC value {want!r}"))


def info(case):
    k = case["t"]
    w = 1
    classes = []
    if k == "zoned-text":
        kinds = sorted({rfc_local(p, case["tz"], case["wall"])[1] for p in sut.PROVIDERS})
        return {"nontrivial": kinds != ["plain"], "classes": ["t:zoned-text", "via:" + case["via"], "tz-given-as:" + case.get("tzarg", "id")] + ["local-time:" + x for x in kinds]}
    if k == "date-block":
        w = case["n"]
        classes = ["t:date"]
    elif k == "date-list":
        w = len(case["dates"])
        classes = ["t:date"]
    elif k == "second-block":
        w = case["n"] * 3
        classes = ["t:time", "t:datetime"]
    elif k == "offset-block":
        w = case["n"]
        classes = ["t:offset"]
    elif k == "duration-block":
        w = case["n"]
        classes = ["t:duration", "duration-multi-unit-or-negative"]
    elif k == "text":
        classes = ["t:text-" + case["kind"]] + (["lower-case-literal"] if case.get("spelling", case["text"]) != case["text"] else [])
    elif k == "twins":
        classes = ["twins:" + "+".join(sorted({i["t"] for i in case["items"]}))]
        w = len(case["items"])
    else:
        classes = ["t:" + k]
        if k == "float":
            a = abs(float(case["v"]))
            if a != 0 and not (1e-4 <= a < 1e16):
                classes.append("float-outside-plain-range")
        if k == "duration":
            td = timedelta(days=case["d"], seconds=case["s"])
            a = abs(td)
            units = sum(1 for u in (a.days, a.seconds // 3600, a.seconds % 3600 // 60, a.seconds % 60) if u)
            if units >= 2 or td < timedelta(0):
                classes.append("duration-multi-unit-or-negative")
    return {"nontrivial": True, "classes": classes, "weight": w}


def region_pytz_repeated(case):
    """RC-AZ: a local time with zone reference; the clause suffix restricts it to times that pytz knows as occurring twice"""
    return case.get("t") == "zoned-text"


REGIONS = {"zoned-text": region_pytz_repeated}

# ----------------------------------------------------------------------------- streams

B = 1000


def _date_blocks(tier):
    if tier == "thorough":
        nb = (3652059 + B - 1) // B
        return Stream("all-dates", "enum", nb, 16, lambda i: {"t": "date-block", "from": 1 + i * B, "n": min(B, 3652059 - i * B), "step": 1}, True, True)
    nb = (3652059 // 16 + B - 1) // B
    return Stream("every-16th-date", "enum", nb, 16, lambda i: {"t": "date-block", "from": 1 + i * B * 16, "n": B, "step": 16}, False, True)


def _month_ends(i):
    # all month ends and firsts of 25 years around each century start (Gregorian leap rules), 0001.. and ..9999
    y0 = [1, 100, 400, 1582, 1600, 1700, 1900, 1970, 2000, 2024, 2100, 2400, 9975][i]
    ds = []
    for y in range(y0, min(y0 + 25, 10000)):
        for m in range(1, 13):
            nxt = date(y + (m == 12), m % 12 + 1, 1) if not (y == 9999 and m == 12) else None
            last = (nxt - timedelta(days=1)) if nxt else date(9999, 12, 31)
            ds += [[y, m, 1], [last.year, last.month, last.day]]
    return {"t": "date-list", "dates": ds}


_carry = st.sampled_from([0, 1, 59, 60, 61, 3599, 3600, 3601, 86399, 7 * 86400, 86400])


def _hyp():
    td = st.one_of(
        st.builds(lambda d, s: {"t": "duration", "d": d, "s": s}, st.integers(-999999999, 999999999), st.integers(0, 86399)),
        st.builds(lambda d, s: {"t": "duration", "d": d, "s": s}, st.integers(-400, 400), _carry.map(lambda x: x % 86400)),
        st.builds(lambda w, s: {"t": "duration", "d": 7 * w, "s": s}, st.integers(-60, 60), st.sampled_from([0, 0, 0, 1, 3600])),
    )
    ints = st.one_of(st.integers(-2 ** 31 - 2, -2 ** 31 + 2), st.integers(2 ** 31 - 2, 2 ** 31 + 2), st.integers(-2 ** 63 - 2, -2 ** 63 + 2),
                     st.integers(2 ** 63 - 2, 2 ** 63 + 2), st.integers(-10 ** 40, 10 ** 40), st.integers(-1000, 1000)
                     ).map(lambda n: {"t": "int", "v": str(n)})
    floats = st.one_of(st.floats(allow_nan=False, allow_infinity=False),
                       st.integers(-10, 22).map(lambda e: 10.0 ** e), st.integers(-10, 22).map(lambda e: -(10.0 ** e) * 1.5),
                       st.floats(min_value=-180, max_value=180, allow_nan=False)).map(lambda x: {"t": "float", "v": repr(x)})
    geo = st.builds(lambda a, b: {"t": "geo", "lat": repr(a), "lon": repr(b)},
                    st.one_of(st.floats(-90, 90, allow_nan=False), st.sampled_from([0.0, 1e-7, -1e-5, 37.386013, 90.0, 5e-324])),
                    st.one_of(st.floats(-180, 180, allow_nan=False), st.sampled_from([0.0, -122.082932, 1e-9, 180.0, 1e16])))
    dts = st.builds(lambda y, mo, d, h, mi, s, u: {"t": "datetime", "v": [y, mo, d, h, mi, s], "utc": u},
                    st.integers(1, 9999), st.integers(1, 12), st.integers(1, 28), st.integers(0, 23), st.integers(0, 59), st.integers(0, 59), st.booleans())
    # the first and the last day of the representable range, in UTC and floating
    dts = st.one_of(dts, dts, st.builds(lambda ymd, h, mi, s, u: {"t": "datetime", "v": list(ymd) + [h, mi, s], "utc": u},
                                        st.sampled_from([(1, 1, 1), (9999, 12, 31), (1, 1, 2), (9999, 12, 30)]), st.sampled_from([0, 12, 23]), st.sampled_from([0, 59]), st.sampled_from([0, 59]), st.booleans()))
    tms = st.builds(lambda h, mi, s, u: {"t": "time", "v": [h, mi, s], "utc": u}, st.integers(0, 23), st.integers(0, 59), st.integers(0, 59), st.booleans())
    per = st.one_of(
        st.builds(lambda y, mo, d, h, mi, s, u, dur: {"t": "period", "start": [y, mo, d, h, mi, s], "utc": u, "dur": dur},
                  st.integers(1900, 2100), st.integers(1, 12), st.integers(1, 28), st.integers(0, 23), st.integers(0, 59), st.integers(0, 59),
                  st.booleans(), st.one_of(st.integers(0, 10 ** 7), _carry)),
        st.builds(lambda y, mo, d, h, mi, s, u, e: {"t": "period", "start": [y, mo, d, h, mi, s], "utc": u, "end_after": e},
                  st.integers(1900, 2100), st.integers(1, 12), st.integers(1, 28), st.integers(0, 23), st.integers(0, 59), st.integers(0, 59),
                  st.booleans(), st.integers(0, 10 ** 8)))
    text = st.text(alphabet=st.characters(blacklist_categories=("Cs",)), max_size=60)
    uri = st.one_of(st.sampled_from(["http://example.com/a?b=c#d", "mailto:jane_doe@example.com", "MAILTO:x@y", "urn:uuid:1-2", "CID:part3", "ftp://h/p;type=a"]),
                    st.text(alphabet=st.characters(min_codepoint=0x21, max_codepoint=0x7e), min_size=1, max_size=40))
    # ordwk = 1*2DIGIT: ordinals may be written with a leading zero (01MO, -05FR)
    wd = st.builds(lambda s, n, d, c, pad: {"t": "weekday", "v": (s + (f"{n:02}" if pad else str(n)) if n else "") + (d.lower() if c else d)},
                   st.sampled_from(["", "+", "-"]), st.integers(0, 53), st.sampled_from(["SU", "MO", "TU", "WE", "TH", "FR", "SA"]), st.booleans(), st.booleans())
    fr = st.builds(lambda f, c: {"t": "freq", "v": [f, f.lower(), f.title()][c]},
                   st.sampled_from(["SECONDLY", "MINUTELY", "HOURLY", "DAILY", "WEEKLY", "MONTHLY", "YEARLY"]), st.integers(0, 2))
    mo = st.builds(lambda m, k: {"t": "month", "v": [m, str(m), f"{m}L"][k]}, st.integers(1, 13), st.integers(0, 2))
    return st.one_of(td, td, ints, floats, floats, geo, dts, tms, per, per, st.booleans().map(lambda b: {"t": "bool", "v": b}),
                     text.map(lambda s: {"t": "binary", "v": s}), st.binary(max_size=80).map(lambda b: {"t": "binary", "hex": b.hex()}),
                     # payloads that begin like a text file: UTF-8/UTF-16/UTF-32 byte order marks, then text
                     st.tuples(st.sampled_from([b"\xef\xbb\xbf", b"\xff\xfe", b"\xfe\xff", b"\xef\xbb", b"\x00", b"\xef\xbb\xbf\xef\xbb\xbf"]),
                               st.sampled_from([b"", b"BEGIN:VCARD\r\nEND:VCARD", b"a,b;c", "\u00e9t\u00e9".encode("utf-8")])).map(lambda ab: {"t": "binary", "hex": (ab[0] + ab[1]).hex()}), uri.map(lambda s: {"t": "uri", "v": s}),
                     uri.map(lambda s: {"t": "caladdr", "v": s}), wd, fr, mo, grammar_texts(), grammar_texts(), grammar_texts())


@st.composite
def _twins(draw):
    fam = draw(st.sampled_from(["number", "number", "month"]))
    if fam == "number":
        n = draw(st.sampled_from([0, 1, 1, 2, -1, 7, 100, 2 ** 31, 10 ** 6]))
        forms = [{"t": "int", "v": str(n)}, {"t": "float", "v": repr(float(n))}]
        if n in (0, 1):
            forms.append({"t": "bool", "v": bool(n)})
        if n == 0:
            forms.append({"t": "float", "v": "-0.0"})
    else:
        m = draw(st.integers(1, 12))
        forms = [{"t": "month", "v": m}, {"t": "month", "v": f"{m}L"}, {"t": "month", "v": str(m)}]
    items = draw(st.permutations(forms))
    return {"t": "twins", "items": list(items) + [items[0]]}


def _num(lo, hi, pad=True):
    n = st.integers(lo, hi)
    if pad:
        return st.one_of(n.map(str), n.map(lambda x: f"{x:02}"), n.map(lambda x: f"{x:04}"))
    return n.map(str)


@st.composite
def dur_text(draw):
    sign = draw(st.sampled_from(["", "", "+", "-"]))
    form = draw(st.sampled_from(["week", "date", "date", "time", "time"]))

    def tpart():
        f = draw(st.sampled_from(["H", "HM", "HMS", "M", "MS", "S"]))
        return "T" + "".join(draw(_num(0, 999)) + u for u in f)
    if form == "week":
        body = draw(_num(0, 5000)) + "W"
    elif form == "date":
        body = draw(_num(0, 99999)) + "D" + (tpart() if draw(st.booleans()) else "")
    else:
        body = tpart()
    return sign + "P" + body


@st.composite
def dt_text(draw, allow_z=True):
    y, m, d = draw(st.integers(1, 9999)), draw(st.integers(1, 12)), draw(st.integers(1, 28))
    h, mi, s = draw(st.integers(0, 23)), draw(st.integers(0, 59)), draw(st.integers(0, 59))
    z = "Z" if allow_z and draw(st.booleans()) else ""
    return f"{y:04}{m:02}{d:02}T{h:02}{mi:02}{s:02}{z}"


@st.composite
def grammar_texts(draw):
    kind = draw(st.sampled_from(["duration", "duration", "offset", "datetime", "date", "time", "int", "float", "bool", "period", "period"]))
    if kind == "duration":
        t = draw(dur_text())
    elif kind == "offset":
        h, m = draw(st.integers(0, 23)), draw(st.integers(0, 59))
        s = draw(st.one_of(st.none(), st.integers(0, 59)))
        sign = draw(st.sampled_from("+-"))
        if sign == "-" and h == 0 and m == 0 and not s:
            sign = "+"
        t = f"{sign}{h:02}{m:02}" + (f"{s:02}" if s is not None else "")
    elif kind == "datetime":
        t = draw(dt_text())
    elif kind == "date":
        t = draw(dt_text(False))[:8]
    elif kind == "time":
        t = draw(dt_text())[9:]
    elif kind == "int":
        t = draw(st.sampled_from(["", "+", "-"])) + draw(_num(0, 10 ** 12))
    elif kind == "float":
        t = draw(st.sampled_from(["", "+", "-"])) + draw(_num(0, 10 ** 9)) + draw(st.one_of(st.just(""), _num(0, 10 ** 9).map(lambda x: "." + x)))
    elif kind == "bool":
        t = draw(st.sampled_from(["TRUE", "FALSE"]))
        sp = draw(st.sampled_from([t, t.lower(), t.title()]))
        return {"t": "text", "kind": kind, "text": t, "spelling": sp}
    else:
        z = draw(st.booleans())
        a = draw(dt_text(False))
        if int(a[:4]) > 9000:       # start + duration (<= 99999 days) must stay representable (year <= 9999), like second 60 and year 0000
            a = "9000" + a[4:]
        a = a + ("Z" if z else "")
        if draw(st.booleans()):
            b = draw(dur_text()).lstrip("-")
        else:
            # an end after the start, same form
            y = int(a[0:4])
            b = f"{min(y + draw(st.integers(0, 3)), 9999):04}" + "1231T235959" + ("Z" if z else "")
        t = a + "/" + b
    case = {"t": "text", "kind": kind, "text": t}
    if kind in ("duration", "datetime", "time", "period") and draw(st.integers(0, 3)) == 0:
        letters = [i_ for i_, ch in enumerate(t) if ch.isalpha()]
        if letters:
            low = set(draw(st.lists(st.sampled_from(letters), min_size=1, max_size=len(letters), unique=True)))
            case["spelling"] = "".join(ch.lower() if i_ in low else ch for i_, ch in enumerate(t))
    return case


@st.composite
def _zoned_texts(draw):
    from checks.c11_zoned_datetimes import transitions, AWKWARD, all_zones
    zone = draw(st.one_of(st.sampled_from(["Europe/Berlin", "America/New_York", "Australia/Lord_Howe", "Europe/Dublin", "Africa/Casablanca", "Asia/Kolkata", "America/St_Johns",
                                           "Pacific/Apia", "Asia/Tehran", "America/Sao_Paulo"]), st.sampled_from(all_zones()), st.sampled_from(AWKWARD)))
    tr = transitions(zone) if zone != "UTC" else []
    if tr and draw(st.integers(0, 4)) > 0:
        t, a, b = draw(st.sampled_from(tr))
        w = t + timedelta(seconds=draw(st.sampled_from([a, b])) + draw(st.sampled_from([0, 1, -1, 900, -900, 1800, -1800, 3599, -3600, 7200])))
        if not 1900 <= w.year <= 2100:
            w = datetime(2021, 10, 31, 2, 30)
    else:
        w = datetime(draw(st.integers(1900, 2099)), draw(st.integers(1, 12)), draw(st.integers(1, 28)), draw(st.integers(0, 23)), draw(st.integers(0, 59)), draw(st.integers(0, 59)))
    return {"t": "zoned-text", "tz": zone, "wall": [w.year, w.month, w.day, w.hour, w.minute, w.second], "via": draw(st.sampled_from(["vDatetime", "vDDDTypes", "vPeriod", "component"])),
            "tzarg": draw(st.sampled_from(["id", "id", "object"]))}


def streams(tier):
    n = 6000 if tier == "quick" else 60000
    return [
        _date_blocks(tier),
        Stream("month-ends", "enum", 13, 13, _month_ends, True, True),
        Stream("all-seconds-of-day", "enum", 864, 16, lambda i: {"t": "second-block", "from": i * 100, "n": 100}, True, True),
        Stream("all-utc-offsets", "enum", 173, 16, lambda i: {"t": "offset-block", "from": -86399 + i * B, "n": min(B, 86399 * 2 + 1 - i * B)}, True, True),
        Stream("all-durations-2-days", "enum", 346, 16, lambda i: {"t": "duration-block", "from": -172800 + i * B, "n": min(B, 345601 - i * B)}, True, True),
        Stream("values-and-grammar-texts", "hyp", n, 16, _hyp),
        Stream("equal-hash-twins", "hyp", 200, 2, _twins),
        Stream("local-times-with-zone-reference", "hyp", 400 if tier == "quick" else 8000, 8, _zoned_texts),
    ]


LEVEL_TEXT = ("The finite value domains named in the property (dates, seconds of a day, UTC offsets, short durations) are enumerated "
              "completely (dates: thorough tier), which decides the codecs' field arithmetic there; unbounded domains (large "
              "durations, integers, floats, text) and the RFC text grammars are sampled with Hypothesis against independent "
              "reference decoders and grammar regexes.")
