"""C06 - Folding: lines <= 75 octets, no split characters, exact unfolding."""
from hypothesis import strategies as st

from vlib.runner import Failure, Stream, exc_signature
from vlib import sut

from icalendar import Event, Calendar
from icalendar.parser import Contentline, Contentlines

ID = "C06"
TECHNIQUE = "exhaustive alignment sweep of multi-octet characters against the 75-octet boundary + Hypothesis mixed-width lines; independent byte-level fold checker"
RULE = ("(i) exhaustive alignment sweep: for each width 2/3/4 (e-acute, euro sign, emoji) x ASCII prefix length 0..230 x "
        "4 tails, all-multibyte lines at offsets 0..3, and the first/last code point of every UTF-8 width class and code-point bit length at prefix lengths 0..79; (ii) all-ASCII lines of every length 0..400 with SP/TAB/CR "
        "variants at the fold points; (iii) Hypothesis lines over a mixed 1-4 octet alphabet with SP/TAB/CR/multi-octet "
        "characters forced at positions 70-80 (mod 74); (iv) multi-line Contentlines and every physical line of "
        "serialised components with long values. Oracle: independent byte-level checker (CRLF termination, <=75 "
        "octets, each physical line valid UTF-8, exactly one added SP, removing CRLF+1 octet restores the original) "
        "and the library's own unfolding. Non-trivial: the line needs at least one fold (>75 octets); distinct by hash.")
RULE += ' Rounds 7-8: every line is also re-serialised after being read from HTAB/LF-folded text and after being decoded from bytes with encoding= (utf-8, latin-1, cp1252, utf-16); lines assembled by Contentline.from_parts; non-ASCII property names.'
ASSUMPTIONS = ["content lines start with a property-name character: not with SP/TAB/CR and not with U+FEFF (a leading U+FEFF in bytes is a BOM, cf. C09)", "lines contain no LF (premise)"]
REQUIRED_CLASSES = ["multi-octet-adjacent-to-boundary", "whitespace-at-fold-point", "kind:line", "kind:lines", "kind:component"]

WIDE = {2: "é", 3: "€", 4: "\U0001F600"}
# first/last code points of every UTF-8 width class and of every code-point bit length (width tables are a natural
# place for off-by-one errors), plus common scripts
EDGE_CHARS = ["\u0080", "\u00ff", "\u0100", "\u03a9", "\u0400", "\u07ff", "\u0800", "\u0905", "\u0e01", "\u0fff", "\u1000",
              "\u1fff", "\u2000", "\u3042", "\u4e2d", "\u7fff", "\u8000", "\uac00", "\ud7ff", "\ue000", "\ufeff", "\uffff",
              "\U00010000", "\U0001ffff", "\U00020000", "\U0003ffff", "\U00040000", "\U000fffff", "\U00100000", "\U0010ffff",
              # characters that attach to their neighbour when displayed (joiners, variation selectors, combining marks, modifiers):
              # to the fold algorithm they are characters like any other
              "\u200d", "\ufe0e", "\ufe0f", "\u0301", "\u20e3", "\U0001f3fb", "\U000e0020", "\u200c", "\u2060", "\u034f"]


def check_folded(orig: str, out: bytes, clause="C06.line", require_final_crlf=False):
    """Independent checker of one folded content line."""
    fails = []
    if not isinstance(out, bytes):
        return [Failure(clause, "to_ical-not-bytes", repr(type(out)))]
    body = out
    if require_final_crlf:
        if not out.endswith(b"\r\n"):
            return [Failure(clause, "no-final-crlf", repr(out[-20:]))]
        body = out[:-2]
    phys = body.split(b"\r\n")
    for i, ln in enumerate(phys):
        if len(ln) > 75:
            fails.append(Failure(clause, "physical-line-longer-than-75", f"line {i} has {len(ln)} octets; orig len={len(orig)}"))
            break
    for i, ln in enumerate(phys):
        try:
            ln.decode("utf-8")
        except UnicodeDecodeError:
            fails.append(Failure(clause, "physical-line-not-valid-utf8", f"line {i}: {ln[:80]!r}"))
            break
    for i, ln in enumerate(phys[1:], 1):
        if ln[:1] != b" ":
            fails.append(Failure(clause, "continuation-without-single-space", f"line {i}: {ln[:20]!r}"))
            break
    restored = phys[0] + b"".join(ln[1:] for ln in phys[1:])
    if restored != orig.encode("utf-8"):
        fails.append(Failure(clause, "unfold-does-not-restore", f"orig={orig[:80]!r} restored={restored[:100]!r}"))
    return fails


def my_unfold_lines(raw: bytes):
    """Split serialised output into logical lines with my own unfolding (CRLF + one SP/TAB removed)."""
    text = raw
    phys = text.split(b"\r\n")
    logical = []
    for ln in phys:
        if ln[:1] in (b" ", b"\t") and logical:
            logical[-1] += ln[1:]
        else:
            logical.append(ln)
    return phys, logical


def _lead(s):
    """Premise: a content line starts with a property name - never with folding whitespace or U+FEFF (which, at the
    start of a byte string handed to from_ical, is a byte-order mark by definition; see C09)."""
    return "X" + s if s and s[0] in " \t\r\ufeff" else s


def judge(case):
    sut.reset()
    kind = case["kind"]
    fails = []
    try:
        if kind == "line":
            s = case["s"]
            cl = Contentline(s)
            out = cl.to_ical()
            fails += check_folded(s, out)
            back = Contentline.from_ical(out)
            if str(back) != s:
                fails.append(Failure("C06.line", "library-unfold-differs", f"s={s[:60]!r} back={str(back)[:60]!r}"))
            # the fold rules hold for every content line object, whatever it was made from: a line read from text folded another
            # way (HTAB folds, LF line ends, other widths), a line decoded from bytes in a legacy encoding
            if "\r" not in s and "\n" not in s and len(s) > 1:
                step = case.get("src_step", 40)
                for ws, eol in ((b"\t", b"\r\n"), (b" ", b"\n"), (b"\t", b"\n")):
                    chunks = [s[i:i + step] for i in range(0, len(s), step)]
                    if any(c[:1] in (" ", "\t") for c in chunks[1:]) and False:
                        continue
                    src = (eol + ws).join(c.encode("utf-8") for c in chunks)
                    again = Contentline.from_ical(src)
                    if str(again) != s:
                        break       # how text is unfolded is C09's clause
                    fails += [Failure(f.clause, f.signature + "/line-read-from-otherwise-folded-text", f.detail) for f in check_folded(s, again.to_ical())]
                for enc in ("utf-8", "latin-1", "cp1252", "utf-16", "utf-16-le"):
                    try:
                        data = s.encode(enc)
                        if data.decode(enc) != s:
                            continue
                    except UnicodeError:
                        continue
                    dec = Contentline(data, encoding=enc)
                    if str(dec) != s:
                        continue
                    fails += [Failure(f.clause, f.signature + "/line-decoded-from-" + enc, f.detail) for f in check_folded(s, dec.to_ical())]
        elif kind == "lines":
            ls = case["lines"]
            cls = Contentlines([Contentline(x) for x in ls])
            out = cls.to_ical()
            if not out.endswith(b"\r\n"):
                fails.append(Failure("C06.lines", "no-final-crlf", repr(out[-10:])))
            phys, logical = my_unfold_lines(out[:-2] if out.endswith(b"\r\n") else out)
            want = [x.encode("utf-8") for x in ls if x]
            if logical != want:
                fails.append(Failure("C06.lines", "lines-unfold-does-not-restore", f"{want[:2]!r} vs {logical[:2]!r}"[:300]))
            for ln in phys:
                if len(ln) > 75:
                    fails.append(Failure("C06.lines", "physical-line-longer-than-75", str(len(ln))))
                    break
                try:
                    ln.decode("utf-8")
                except UnicodeDecodeError:
                    fails.append(Failure("C06.lines", "physical-line-not-valid-utf8", repr(ln[:60])))
                    break
            back = Contentlines.from_ical(out)
            got = [str(x) for x in back if x]
            if got != [x for x in ls if x]:
                fails.append(Failure("C06.lines", "library-lines-unfold-differs", f"{got[:2]!r}"[:300]))
        elif kind == "parts":
            # a content line assembled from name, parameters and value - each of the three may be the only non-ASCII part
            from icalendar.parser import Parameters
            from icalendar.prop import vText
            cl = Contentline.from_parts(case["name"], Parameters(case["params"]), vText(case["value"]), sorted=case.get("sorted", True))
            s_ = str(cl)
            if "\n" not in s_ and "\r" not in s_:
                fails += check_folded(s_, cl.to_ical(), "C06.parts")
        elif kind == "component":
            cal = Calendar()
            ev = Event()
            for name, val, params in case["props"]:
                ev.add(name, val, parameters=params or None)
            cal.add_component(ev)
            raw = cal.to_ical()
            if not raw.endswith(b"\r\n"):
                fails.append(Failure("C06.component", "no-final-crlf", repr(raw[-10:])))
            phys, logical = my_unfold_lines(raw[:-2])
            for ln in phys:
                if len(ln) > 75:
                    fails.append(Failure("C06.component", "physical-line-longer-than-75", f"{len(ln)}: {ln[:40]!r}"))
                    break
                try:
                    ln.decode("utf-8")
                except UnicodeDecodeError:
                    fails.append(Failure("C06.component", "physical-line-not-valid-utf8", repr(ln[:60])))
                    break
            want = [str(c).encode("utf-8") for c in cal.content_lines() if c]
            if logical != want:
                fails.append(Failure("C06.component", "component-unfold-does-not-restore",
                                     f"want={want[:3]!r} got={logical[:3]!r}"[:400]))
        else:
            raise ValueError(kind)
    except AssertionError as e:
        fails.append(Failure("C06.raises", "raises/" + exc_signature(e), repr(e)[:200]))
    except Exception as e:
        fails.append(Failure("C06.raises", "raises/" + exc_signature(e), repr(e)[:200]))
    return fails


def _strings(case):
    if case["kind"] == "line":
        return [case["s"]]
    if case["kind"] == "lines":
        return case["lines"]
    if case["kind"] == "parts":
        return [f"{case['name']}:{case['value']}"]
    return [f"{n}:{v}" for n, v, p in case["props"]]


def info(case):
    ss = _strings(case)
    classes = ["kind:" + case["kind"]]
    nontrivial = False
    for s in ss:
        b = s.encode("utf-8")
        if len(b) > 75:
            nontrivial = True
        # characters adjacent to multiples of the 74-octet payload boundary
        pos = 0
        for ch in s:
            w = len(ch.encode("utf-8"))
            near = any(abs(((pos + d) % 74)) <= 1 or ((pos + d) % 74) >= 73 for d in (0, w)) and pos > 60
            if near and w > 1:
                classes.append("multi-octet-adjacent-to-boundary")
            if near and ch in " \t\r":
                classes.append("whitespace-at-fold-point")
            pos += w
    return {"nontrivial": nontrivial, "classes": sorted(set(classes))}


SHRINK_STRINGS = True
REGIONS = {}

# ----------------------------------------------------------------------------- streams

TAILS = ["", "b" * 100, None, " \t" * 20]   # None -> the wide char repeated 40 times


def _sweep(i):
    wi, rest = divmod(i, 231 * len(TAILS))
    p, ti = divmod(rest, len(TAILS))
    ch = WIDE[(2, 3, 4)[wi]]
    tail = TAILS[ti]
    if tail is None:
        tail = ch * 40
    return {"kind": "line", "s": _lead("a" * p + ch + tail)}


def _allwide(i):
    ci, off = divmod(i, 4)
    ch = (list(WIDE.values()) + EDGE_CHARS)[ci]
    return {"kind": "line", "s": _lead("x" * off + ch * 120)}


def _edge_sweep(i):
    ci, p = divmod(i, 80)
    ch = EDGE_CHARS[ci]
    return {"kind": "line", "s": _lead("a" * p + ch * 3 + "b" * 80)}


def _ascii(i):
    n, v = divmod(i, 4)
    s = "N:" + "a" * n if n >= 2 else "a" * n
    if v and len(s) > 76:
        ch = " \t\r"[v - 1]
        for pos in (73, 74, 75, 147, 148, 149):
            if pos < len(s):
                s = s[:pos] + ch + s[pos + 1:]
    return {"kind": "line", "s": s}


_mixed = st.one_of(
    st.sampled_from(list("abcXYZ09:;=,") + [" ", "\t", "\r", "é", "ü", "€", "中", "\U0001F600", "\U00010348"]),
    st.sampled_from(EDGE_CHARS),
    st.characters(blacklist_categories=("Cs",), blacklist_characters="\n"),
)
_hot_positions = list(range(68, 82)) + list(range(142, 158)) + list(range(216, 232))
_hot_chars = [" ", "\t", "\r", "é", "€", "\U0001F600"]


@st.composite
def mixed_line(draw, lead="X"):
    # runs of repeated characters keep the number of random draws small (long per-character lists are slow)
    runs = draw(st.lists(st.tuples(_mixed, st.integers(1, 45)), min_size=0, max_size=10))
    chars = [c for c, k in runs for _ in range(k)]
    for pos, ch in draw(st.lists(st.tuples(st.sampled_from(_hot_positions), st.sampled_from(_hot_chars)), max_size=6)):
        if pos < len(chars):
            chars[pos] = ch
    s = "".join(chars)
    if lead and not s:
        s = lead
    return _lead(s)


def _hyp():
    names = st.sampled_from(["summary", "description", "x-long-property-name-" + "z" * 40, "location", "comment", "x-pr\u00e9nom", "X-\u00c4-LABEL", "x-\u540d\u524d", "X-\U0001F600"])
    pvals = st.dictionaries(st.sampled_from(["X-P", "LANGUAGE", "ALTREP"]), mixed_line(lead="v").map(lambda s: s.replace('"', "")[:90].replace("\r", "")), max_size=2)
    props = st.lists(st.tuples(names, mixed_line(lead=""), pvals).map(list), min_size=1, max_size=4)
    return st.one_of(
        mixed_line(lead="").map(lambda s: {"kind": "line", "s": s}),
        st.lists(mixed_line(), min_size=1, max_size=5).map(lambda ls: {"kind": "lines", "lines": ls}),
        props.map(lambda p: {"kind": "component", "props": p}),
        st.builds(lambda n_, v_, pv, so: {"kind": "parts", "name": n_, "value": v_, "params": pv, "sorted": so}, names,
                  st.one_of(mixed_line(lead=""), st.integers(0, 300).map(lambda k: "abcdefghij" * (k // 10) + "x" * (k % 10))),
                  st.one_of(st.just({}), pvals), st.booleans()),
    )


_bf = st.sampled_from(["\u00bf", "\u00ff", "\u043f", "\u03bf", "\u77bf", "\uffff", "\U0010ffff", "y", "z", " ", "\u20ac"])   # UTF-8 forms ending in / containing 0xBF, 0xBE ...


@st.composite
def very_long_line(draw):
    """lines of several thousand characters (a size-gated fast path must fold like the normal path)"""
    runs = draw(st.lists(st.tuples(st.one_of(_bf, _mixed), st.integers(1, 700)), min_size=3, max_size=9))
    chars = "".join(c * k for c, k in runs)
    period = draw(st.integers(2, 9))
    inter = draw(_bf)
    s = "".join(ch + (inter if i % period == 0 else "") for i, ch in enumerate(chars[:6000]))
    return {"kind": "line", "s": _lead("DESCRIPTION:" + s)}


def streams(tier):
    n = 1200 if tier == "quick" else 40000
    return [
        Stream("alignment-sweep", "enum", 3 * 231 * len(TAILS), 4, _sweep, True, True),
        Stream("all-wide-offsets", "enum", 4 * (3 + len(EDGE_CHARS)), 1, _allwide, True, True),
        Stream("width-class-edges", "enum", 80 * len(EDGE_CHARS), 4, _edge_sweep, True, True),
        Stream("ascii-lengths", "enum", 401 * 4, 2, _ascii, True, False),
        Stream("mixed-lines", "hyp", n, 16, _hyp),
        Stream("very-long-lines", "hyp", max(20, n // 40), 8, very_long_line),
    ]


LEVEL_TEXT = ("Every alignment of a 2/3/4-octet character with the fold boundary on the first three physical lines and "
              "every ASCII length up to 400 is enumerated (complete for that finite sub-domain); arbitrary mixes are "
              "sampled with Hypothesis. The checker is byte-level and shares no code with foldline.")
