"""C11 - Zoned date-times keep wall time, zone id, offset; UTC properties keep instant."""
import functools
import zoneinfo
from datetime import datetime, timedelta, timezone

import dateutil.tz
import pytz
from hypothesis import strategies as st

from vlib.runner import Failure, Stream, exc_signature
from vlib import sut, values as V
from vlib.model.lineparse import parse_line, unfold, LineSyntaxError

from icalendar import Alarm, Event, Todo, FreeBusy, Calendar

ID = "C11"
TECHNIQUE = "Hypothesis over (zone id x wall time x property shape x tzinfo source x provider) with wall times placed on and around every offset transition found by scanning tzdata; round-trip oracle against the tz library's own offset for the wall time and an independent reading of the emitted line"
RULE = ("Zone ids: Hypothesis samples from all ids known to both tz libraries (quick: about 24k cases over ~590 ids; thorough: 16x more) plus "
        "a fixed awkward list (UTC, Etc/UTC, Etc/GMT+5, GMT, Zulu, links, America/Argentina/*, Lord_Howe, Chatham, Kathmandu, Apia, "
        "Casablanca, Dublin, Troll); wall times: uniform 1900-2100 and, per zone, every ground-truth transition (found by scanning "
        "utcoffset month by month and bisecting to the second) shifted by 0, +-1 s, +-30 min in both the old and the new offset (gaps "
        "and folds included); shapes: single DTSTART/DTEND/DUE/RECURRENCE-ID, EXDATE/RDATE lists, RDATE period list, FREEBUSY period; "
        "tzinfo source zoneinfo / pytz / dateutil; both providers. Oracle: the emitted line (reference line parser) has the same "
        "wall-clock fields, TZID == zone key and no Z (UTC: Z and no TZID); parsed back: same wall fields, same zone id, utcoffset == "
        "the offset the provider's tz library assigns to that wall time in the reading of RFC 5545 3.3.5 (first occurrence of a repeated time, offset before a gap: fold 0); dateutil sources: wall time only. "
        "DTSTAMP/CREATED/LAST-MODIFIED/ACKNOWLEDGED (add and descriptors) are written as astimezone(UTC) with Z. Non-trivial: zone "
        "!= UTC and wall time within a day of a transition, or list/period shape; distinct by hash.")
RULE += ' Rounds 7-8: datetime-subclass values; attribute setters and replacement on a property that held the same instant in another zone; expected offsets in the RFC 5545 3.3.5 reading for both providers.'
ASSUMPTIONS = ["tzdata as installed is the ground truth for offsets", "zone ids known to both zoneinfo and pytz (so that every source x provider pair is meaningful)"]
REQUIRED_CLASSES = ["history:same-instant-in-another-zone", "near-transition", "in-gap-or-fold", "shape:single", "shape:list", "shape:rdate-period", "shape:freebusy", "shape:utc-prop", "src:zoneinfo",
                    "src:pytz", "src:dateutil", "zone:utc"]

UTC = timezone.utc
AWKWARD = ["UTC", "Etc/UTC", "Etc/GMT+5", "Etc/GMT-14", "GMT", "Zulu", "Europe/Dublin", "America/Argentina/Buenos_Aires", "America/Argentina/ComodRivadavia",
           "Australia/Lord_Howe", "Pacific/Chatham", "Asia/Kathmandu", "Pacific/Apia", "Africa/Casablanca", "Antarctica/Troll", "Europe/Berlin", "US/Eastern",
           "America/New_York", "Asia/Kolkata", "America/Sao_Paulo", "Africa/Cairo", "Asia/Tehran", "America/St_Johns", "Pacific/Kiritimati", "Europe/Lisbon"]


@functools.lru_cache(maxsize=None)
def all_zones():
    z = sorted(set(zoneinfo.available_timezones()) & set(pytz.all_timezones))
    return [x for x in z if x not in ("localtime", "Factory")]


@functools.lru_cache(maxsize=None)
def transitions(zone):
    """UTC instants (naive) at which utcoffset or tzname changes, 1900-2100, with (offset_before, offset_after) in seconds"""
    tz = zoneinfo.ZoneInfo(zone)
    out = []

    def key(t):
        d = t.replace(tzinfo=UTC).astimezone(tz)
        return (d.utcoffset(), d.tzname())
    t = datetime(1900, 1, 1)
    end = datetime(2100, 1, 1)
    step = timedelta(days=14)
    prev = key(t)
    while t < end:
        n = t + step
        k = key(n)
        if k != prev:
            lo, hi = t, n
            while hi - lo > timedelta(seconds=1):
                mid = lo + (hi - lo) // 2
                mid = mid.replace(microsecond=0)
                if key(mid) == prev:
                    lo = mid
                else:
                    hi = mid
            kk = key(hi)
            out.append((hi, int(prev[0].total_seconds()), int(kk[0].total_seconds())))
            prev = key(n)
            # there may be a second change inside the step; rescan from hi
            if kk != prev:
                t = hi
                prev = kk
                continue
        t = n
    return out


def mk_dt(src, zone, wall, fold=0):
    naive = datetime(*wall, fold=fold)
    if src == "pytz":
        return V.pytz_local(pytz.timezone(zone), naive.replace(fold=0), fold)
    if src == "dateutil":
        tz = dateutil.tz.gettz(zone)
        if tz is None:
            raise ValueError("malformed case: dateutil does not know " + zone)
        return naive.replace(tzinfo=tz)
    return naive.replace(tzinfo=zoneinfo.ZoneInfo(zone))


class _Stamp(datetime):
    """what pandas.Timestamp, pendulum.DateTime or a user class are to the library: a datetime by isinstance, not by type"""


def as_subclass(dt):
    return _Stamp(dt.year, dt.month, dt.day, dt.hour, dt.minute, dt.second, dt.microsecond, tzinfo=dt.tzinfo, fold=dt.fold)


def provider_offset(provider, zone, naive):
    if provider == "pytz":
        return V.pytz_local(pytz.timezone(zone), naive).utcoffset()     # RFC 5545 3.3.5: first occurrence / offset before a gap, as fold=0
    return naive.replace(tzinfo=zoneinfo.ZoneInfo(zone)).utcoffset()


def fmt(dt):
    return f"{dt.year:04}{dt.month:02}{dt.day:02}T{dt.hour:02}{dt.minute:02}{dt.second:02}"


def zid(dt):
    tz = dt.tzinfo
    return getattr(tz, "key", None) or getattr(tz, "zone", None)


def judge(case):
    provider, src, zone, shape = case["provider"], case["src"], case["zone"], case["shape"]
    sut.reset(provider)
    fails = []
    wall = case["wall"]
    naive = datetime(*wall)
    dt = mk_dt(src, zone, wall, case.get("fold", 0))   # fold=1: the second occurrence of a repeated wall time (PEP 495)
    is_utc = zone == "UTC"
    if case.get("sub"):
        dt = as_subclass(dt)
    twin = None
    if case.get("via") and case.get("twin_zone"):
        z2 = case["twin_zone"]
        tz2 = pytz.timezone(z2) if src == "pytz" else dateutil.tz.gettz(z2) if src == "dateutil" else zoneinfo.ZoneInfo(z2)
        twin = dt.astimezone(tz2)
    if case.get("twin_zone"):
        # history: the same instant, expressed in another zone (the two date-times compare and hash equal), was written and
        # read in this process just before
        try:
            z2 = case["twin_zone"]
            tz2 = pytz.timezone(z2) if src == "pytz" else dateutil.tz.gettz(z2) if src == "dateutil" else zoneinfo.ZoneInfo(z2)
            pre = Event()
            pre.add("dtstart", dt.astimezone(tz2))
            pre.add("exdate", [dt.astimezone(tz2)])
            pre.add("dtstamp", dt.astimezone(tz2))
            Event.from_ical(pre.to_ical())
        except Exception:  # noqa: BLE001 - only what follows is judged
            pass
    span = timedelta(days=case.get("end_days", 0), hours=1)       # explicit ends may lie days later, across offset changes
    end_wall = naive + span
    use_end = bool(case.get("end")) and end_wall.year < 2100
    if use_end:
        # a period needs start <= end as instants, in the reading of the library the zone objects come from (it is built with
        # them) *and* in the reading of the active provider (it is parsed with it: the two libraries place wall times inside a
        # gap differently, and the thorough tier met periods that one of them reads as ending before they start).  That is the
        # only restriction: ends inside gaps and folds are wall-clock times like any other.
        try:
            ew = [end_wall.year, end_wall.month, end_wall.day, end_wall.hour, end_wall.minute, end_wall.second]
            for lib in {src, provider}:
                s_obj = dt if lib == src else mk_dt(lib, zone, wall, 0)
                if not s_obj.astimezone(UTC) <= mk_dt(lib, zone, ew).astimezone(UTC):
                    use_end = False
        except Exception:  # noqa: BLE001
            use_end = False
    try:
        if shape == "utc-prop":
            return judge_utc_prop(case, dt)
        name = case.get("name")
        if shape == "single":
            comp = Todo() if name == "DUE" else Event()
            via = case.get("via", "add")
            if via == "attr" and name in ("DTSTART", "DTEND", "DUE"):
                # the attribute setters, on a component that already holds the same instant expressed in another zone
                if twin is not None:
                    setattr(comp, name, twin)
                setattr(comp, name, dt)
            elif via == "replace":
                if twin is not None:
                    comp.add(name, twin)
                    del comp[name]
                comp.add(name, dt)
            else:
                comp.add(name, dt)
            values = [naive]
        elif shape == "list":
            comp = Event()
            dt2 = mk_dt(src, zone, case["wall2"])
            comp.add(name, [dt, dt2])
            values = [naive, datetime(*case["wall2"])]
        elif shape == "rdate-period":
            comp = Event()
            second = mk_dt(src, zone, [end_wall.year, end_wall.month, end_wall.day, end_wall.hour, end_wall.minute, end_wall.second]) if use_end else timedelta(hours=1)
            comp.add("rdate", [(dt, second)])
            values = [naive]
        else:  # freebusy
            comp = FreeBusy()
            second = mk_dt(src, zone, [end_wall.year, end_wall.month, end_wall.day, end_wall.hour, end_wall.minute, end_wall.second]) if use_end else timedelta(hours=1)
            comp.add("freebusy", (dt, second))
            values = [naive]
        raw = comp.to_ical()
    except Exception as e:
        return [Failure("C11.write", "build-or-serialise-raises/" + exc_signature(e), f"{case!r}: {e!r}"[:400])]
    # ---- emitted line
    pname = {"rdate-period": "RDATE", "freebusy": "FREEBUSY"}.get(shape, name).upper()
    line = next((ln for ln in unfold(raw) if ln.upper().startswith(pname)), None)
    try:
        _, params, text = parse_line(line)
    except (LineSyntaxError, TypeError) as e:
        return [Failure("C11.write", "emitted-line-not-rfc-grammar", f"{line!r}: {e}")]
    pm = {p[0].upper(): p[1] for p in params}
    parts = text.split(",")
    firsts = [p.split("/")[0] for p in parts]
    exp_walls = [fmt(v) for v in values]
    if src != "dateutil" or True:
        if [f.rstrip("Z") for f in firsts] != exp_walls:
            fails.append(Failure("C11.write", "emitted-wall-time-differs", f"{line!r} expected {exp_walls!r}"))
    if src != "dateutil":
        if is_utc:
            if "TZID" in pm or not all(f.endswith("Z") for f in firsts):
                fails.append(Failure("C11.write", "utc-not-written-as-Z-without-TZID", f"{line!r}"))
        else:
            if pm.get("TZID") != [zone] or any(f.endswith("Z") for f in firsts):
                fails.append(Failure("C11.write", "tzid-is-not-the-zone-key", f"{line!r} expected TZID={zone}"))
    # ---- parsed back
    try:
        sut.reset(provider)
        back = type(comp).from_ical(raw)
        v = back[pname]
    except Exception as e:
        fails.append(Failure("C11.read", "parse-raises/" + exc_signature(e), f"{raw!r}: {e!r}"[:400]))
        return fails
    if shape in ("list", "rdate-period"):
        got = [d.dt for d in v.dts]
    else:
        got = [v.dt]
    got_starts = [g[0] if isinstance(g, tuple) else g for g in got]
    if len(got_starts) != len(values):
        fails.append(Failure("C11.read", "value-count-differs", f"{got!r}"))
        return fails
    for g, want in zip(got_starts, values):
        if not isinstance(g, datetime) or g.replace(tzinfo=None) != want:
            fails.append(Failure("C11.read", "parsed-wall-time-differs", f"{g!r} expected wall {want!r} ({zone})"))
            continue
        if src == "dateutil":
            continue
        if g.tzinfo is None:
            fails.append(Failure("C11.read", f"parsed-value-is-floating/{shape}", f"{raw!r}"[:300]))
            continue
        if is_utc:
            if g.utcoffset() != timedelta(0):
                fails.append(Failure("C11.read", "parsed-utc-offset-differs", f"{g!r}"))
            continue
        if zid(g) != zone:
            fails.append(Failure("C11.read", "parsed-zone-id-differs", f"{zid(g)!r} expected {zone!r}"))
        exp_off = provider_offset(provider, zone, want)
        if g.utcoffset() != exp_off:
            fails.append(Failure("C11.read", "parsed-offset-differs", f"{zone} {want}: {g.utcoffset()} expected {exp_off} (provider {provider})"))
    if shape == "single" and not is_utc and src != "dateutil":
        # the same text through the value classes themselves, the zone given as the provider's own tzinfo object (documented for
        # vDatetime.from_ical) or as its id: the offset is the one the provider assigns to that wall time
        from icalendar.prop import vDDDTypes, vDatetime
        zobj = pytz.timezone(zone) if provider == "pytz" else zoneinfo.ZoneInfo(zone)
        for how, arg in (("tzinfo-object", zobj), ("id", zone)):
            for cls_ in (vDatetime, vDDDTypes):
                try:
                    d_ = cls_.from_ical(fmt(naive), arg)
                    if d_.replace(tzinfo=None) != naive or d_.utcoffset() != provider_offset(provider, zone, naive):
                        fails.append(Failure("C11.read", f"value-class-decodes-another-offset/{how}", f"{cls_.__name__}.from_ical({fmt(naive)!r}, {arg!r}) -> {d_!r} offset {d_.utcoffset()} expected {provider_offset(provider, zone, naive)}"))
                        break
                except Exception as e:  # noqa: BLE001
                    fails.append(Failure("C11.read", f"value-class-raises/{how}/" + exc_signature(e), f"{cls_.__name__} {fmt(naive)} {arg!r}: {e!r}"[:300]))
                    break
    if shape in ("rdate-period", "freebusy"):
        g = got[0]
        if not isinstance(g, tuple):
            fails.append(Failure("C11.read", "period-not-a-tuple", repr(g)))
        elif use_end:
            e_want = end_wall
            if not isinstance(g[1], datetime) or g[1].replace(tzinfo=None) != e_want:
                fails.append(Failure("C11.read", "period-end-wall-time-differs", f"{g[1]!r} expected {e_want!r}"))
            elif src != "dateutil" and not is_utc and (g[1].tzinfo is None or zid(g[1]) != zone):
                fails.append(Failure("C11.read", "period-end-zone-differs", f"{g[1]!r}"))
            elif src != "dateutil" and not is_utc and g[1].utcoffset() != provider_offset(provider, zone, e_want):
                fails.append(Failure("C11.read", "period-end-offset-differs", f"{zone} end {e_want}: {g[1].utcoffset()} expected {provider_offset(provider, zone, e_want)}"))
        elif g[1] != timedelta(hours=1):
            fails.append(Failure("C11.read", "period-duration-differs", repr(g[1])))
    return fails


def judge_utc_prop(case, dt):
    fails = []
    how = case["how"]
    want = dt.astimezone(UTC)
    if how.startswith("add:"):
        name = how[4:]
        comp = Alarm() if name == "acknowledged" else Event()
        comp.add(name, dt)
    else:
        attr = how[4:]
        comp = Alarm() if attr == "ACKNOWLEDGED" else Event()
        if case.get("via") and case.get("twin_zone"):
            setattr(comp, attr, dt.astimezone(zoneinfo.ZoneInfo(case["twin_zone"])))
        setattr(comp, attr, dt)
        name = attr.replace("_", "-")
    raw = comp.to_ical()
    line = next((ln for ln in unfold(raw) if ln.upper().startswith(name.upper())), None)
    try:
        _, params, text = parse_line(line)
    except (LineSyntaxError, TypeError) as e:
        return [Failure("C11.utc", "emitted-line-not-rfc-grammar", f"{line!r}: {e}")]
    if any(p[0].upper() == "TZID" for p in params) or text != fmt(want) + "Z":
        fails.append(Failure("C11.utc", f"utc-property-not-written-in-utc/{how}", f"{line!r} expected {fmt(want)}Z"))
    back = type(comp).from_ical(raw)
    g = back[name].dt
    if not isinstance(g, datetime) or g.tzinfo is None or g.astimezone(UTC) != want:
        fails.append(Failure("C11.utc", f"utc-property-instant-differs/{how}", f"{g!r} expected {want!r}"))
    return fails


def _within(zone, wall, delta):
    naive = datetime(*wall)
    return any(abs((t + timedelta(seconds=off)) - naive) <= delta for t, a, b in transitions(zone) for off in (a, b))


def near_transition(zone, wall):
    naive = datetime(*wall)
    for t, a, b in transitions(zone):
        for off in (a, b):
            if abs((t + timedelta(seconds=off)) - naive) <= timedelta(days=1):
                return True
    return False


def in_gap_or_fold(zone, wall):
    naive = datetime(*wall)
    for t, a, b in transitions(zone):
        lo, hi = sorted((t + timedelta(seconds=a), t + timedelta(seconds=b)))
        if lo <= naive < hi:
            return True
    return False


def info(case):
    classes = ["shape:" + case["shape"], "src:" + case["src"], "provider:" + case["provider"]]
    zone = case["zone"]
    if zone == "UTC":
        classes.append("zone:utc")
    nt = case["shape"] in ("list", "rdate-period", "freebusy")
    if case.get("fold"):
        classes.append("fold=1")
    if case.get("twin_zone"):
        classes.append("history:same-instant-in-another-zone")
        if case.get("via"):
            classes.append("history:property-held-the-twin-before/" + case["via"])
    if case.get("sub"):
        classes.append("datetime-subclass" + ("/fold=1" if case.get("fold") else ""))
    if zone != "UTC":
        if near_transition(zone, case["wall"]):
            classes.append("near-transition")
            nt = True
        if in_gap_or_fold(zone, case["wall"]):
            classes.append("in-gap-or-fold")
    return {"nontrivial": nt, "classes": classes}


REGIONS = {}

# ----------------------------------------------------------------------------- strategies
_uniform_wall = st.tuples(st.integers(1900, 2099), st.integers(1, 12), st.integers(1, 28), st.integers(0, 23), st.integers(0, 59), st.integers(0, 59)).map(list)


def _wall_list(d):
    return [d.year, d.month, d.day, d.hour, d.minute, d.second]


@st.composite
def walls_for(draw, zone):
    tr = transitions(zone) if zone != "UTC" else []
    if tr and draw(st.integers(0, 3)) > 0:
        t, a, b = draw(st.sampled_from(tr))
        off = draw(st.sampled_from([a, b]))
        delta = draw(st.sampled_from([0, 1, -1, 1800, -1800, 3599, -3600, 86400]))
        w = t + timedelta(seconds=off + delta)
        if 1900 <= w.year <= 2100:
            return _wall_list(w)
    return draw(_uniform_wall)


@st.composite
def cases(draw):
    zone = draw(st.one_of(st.sampled_from(all_zones()), st.sampled_from(AWKWARD)))
    provider = draw(st.sampled_from(["zoneinfo", "pytz"]))
    src = draw(st.sampled_from(["zoneinfo", "zoneinfo", "pytz", "pytz", "dateutil"]))
    shape = draw(st.sampled_from(["single", "single", "list", "rdate-period", "freebusy", "utc-prop"]))
    case = {"provider": provider, "src": src, "zone": zone, "shape": shape, "wall": draw(walls_for(zone)), "fold": draw(st.sampled_from([0, 0, 1]))}
    if draw(st.integers(0, 3)) == 0:
        case["twin_zone"] = draw(st.sampled_from(["UTC", "Europe/Berlin", "America/New_York", "Asia/Kolkata", "Etc/GMT+5", "Australia/Lord_Howe"]))
    if draw(st.integers(0, 3)) == 0:
        case["sub"] = True
    if shape in ("single", "utc-prop") and draw(st.booleans()):
        case["via"] = draw(st.sampled_from(["attr", "replace"]))
    if shape == "single":
        case["name"] = draw(st.sampled_from(["DTSTART", "DTEND", "DUE", "RECURRENCE-ID"]))
    elif shape == "list":
        case["name"] = draw(st.sampled_from(["EXDATE", "RDATE"]))
        case["wall2"] = draw(walls_for(zone))
    elif shape in ("rdate-period", "freebusy"):
        case["end"] = draw(st.booleans())
        case["end_days"] = draw(st.sampled_from([0, 0, 1, 2, 30, 200]))
    else:
        case["how"] = draw(st.sampled_from(["add:dtstamp", "add:created", "add:last-modified", "add:acknowledged", "set:DTSTAMP", "set:LAST_MODIFIED", "set:ACKNOWLEDGED"]))
    return case


def streams(tier):
    n = 1500 if tier == "quick" else 25000
    return [Stream("zones-x-walls-x-shapes", "hyp", n, 16, cases, timeout_s=60)]


LEVEL_TEXT = ("Random (zone, wall time, shape, source, provider) tuples with the wall times concentrated on the seconds around every "
              "offset transition of the zone; the expected offset comes from the tz library itself, the emitted line is read by an "
              "independent parser. All ~590 zone ids are in the sampling pool; not every (zone, transition) pair is visited in the quick "
              "tier.")
