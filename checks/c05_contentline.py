"""C05 - Content-line join/split are inverse; values cannot inject structure."""
import re
from datetime import datetime

from hypothesis import strategies as st

from vlib.runner import Failure, Stream, exc_signature
from vlib import sut

from icalendar import Calendar, Event, Todo
from icalendar.parser import Parameters, Contentline
from icalendar.prop import vText, vUri, vCalAddress, vInt, vInline, vCategory, vDDDTypes, vBoolean, vFloat

ID = "C05"
TECHNIQUE = "Hypothesis-generated (name, parameter map, typed value) triples over a hostile delimiter/line-break alphabet; join/split round-trip + structural containment oracle on a sentinel calendar"
RULE = ("Hypothesis: property names (X- names, random RFC tokens, RFC names matched to the value kind, any case), 0-3 parameters "
        "whose values/lists are drawn from an alphabet weighted to \\ ; : , \" % = ^ CR LF TAB NUL DEL and the fragments "
        "'BEGIN:VEVENT', 'END:VCALENDAR', CRLF+SP, CRLF+'BEGIN:VTODO'; typed values TEXT/URI/CAL-ADDRESS/inline/CATEGORIES with "
        "the same hostile alphabet and INTEGER/DATE-TIME/BOOLEAN/FLOAT (benign); plus an exhaustive sweep of all values over a "
        "9-symbol injection alphabet up to length 3 as value and as parameter value. Oracle (line): from_parts either raises "
        "(refusal), or parts() raises ValueError, or name/params/value are returned intact; refusal or rejection is accepted only "
        "when the input contains a character that cannot be carried (control character in a parameter, raw line break in a "
        "non-TEXT value). Oracle (tree): the property is placed in a VEVENT between sentinel properties inside a VCALENDAR next "
        "to a sentinel VTODO; after to_ical/from_ical the component multiset, every component's property names and the "
        "property's parameter names must be subsets of the intended ones, all sentinels intact, and the property either equal "
        "to what was written or recorded in the event's error list. Non-trivial: value or a parameter value contains a "
        "delimiter/escape/line-break character; distinct by hash.")
RULE += ' Rounds 7-8: parameter values are also typed strings (vText, vCalAddress, vUri, a str subclass) or objects with to_ical(); lower-case and other percent escapes are ordinary fragments.'
ASSUMPTIONS = ["checks run without -O (refusal by AssertionError counts as refusal)",
               "property names BEGIN/END and the semantics-bearing parameter names VALUE/TZID/ENCODING are outside the generated domain",
               "'\"' -> \"'\" in parameter values and [v] == v are documented normalisations"]
REQUIRED_CLASSES = ["config:python-O+linebreak", "has-linebreak", "has-colon-or-semicolon", "has-begin-end-text", "kind:text", "kind:uri", "kind:category",
                    "outcome:intact", "outcome:refused"]

CTRL = re.compile(r"[\x00-\x08\x0a-\x1f\x7f]")
RFC_BY_KIND = {
    # own lists (not read from the library's tables): every TEXT / URI / CAL-ADDRESS property of RFC 5545
    "text": ["SUMMARY", "DESCRIPTION", "COMMENT", "LOCATION", "CONTACT", "REQUEST-STATUS", "RELATED-TO", "TZNAME", "STATUS", "TRANSP", "CLASS", "ACTION", "RESOURCES"],
    "uri": ["URL", "TZURL", "ATTACH"], "caladdr": ["ATTENDEE", "ORGANIZER"],
    "int": ["PRIORITY", "SEQUENCE"], "datetime": ["COMPLETED", "DTSTART"], "category": ["CATEGORIES"], "inline": [],
    "bool": [], "float": [],
}
STRING_KINDS = ("text", "uri", "caladdr", "inline", "category")


def mk_value(kind, v):
    if kind == "text":
        return vText(v)
    if kind == "uri":
        return vUri(v)
    if kind == "caladdr":
        return vCalAddress(v)
    if kind == "inline":
        return vInline(v)
    if kind == "category":
        return vCategory(v)
    if kind == "int":
        return vInt(v)
    if kind == "bool":
        return vBoolean(v)
    if kind == "float":
        return vFloat(v)
    if kind == "datetime":
        return vDDDTypes(datetime(*v))
    raise ValueError(kind)


def norms(s):
    return {s.replace("\\N", "\n").replace("\r\n", "\n"), s.replace("\r\n", "\n").replace("\\N", "\n")}


def value_ok(kind, v, got_text=None, got_obj=None):
    """does the read-back value equal the supplied one? (got_text: line path; got_obj: tree path)"""
    if got_text is not None:
        if kind == "text":
            return str(vText.from_ical(got_text)) in norms(v)
        if kind in ("uri", "caladdr", "inline"):
            return got_text == v
        if kind == "category":
            dec = vCategory.from_ical(got_text)
            return len(dec) == len(v) and all(str(d) in norms(i) for d, i in zip(dec, v))
        if kind == "int":
            return vInt.from_ical(got_text) == v
        if kind == "bool":
            return bool(vBoolean.from_ical(got_text)) == v
        if kind == "float":
            return vFloat.from_ical(got_text) == v
        if kind == "datetime":
            return vDDDTypes.from_ical(got_text) == datetime(*v)
    else:
        if kind == "text":
            return isinstance(got_obj, str) and str(got_obj) in norms(v)
        if kind in ("uri", "caladdr", "inline"):
            return isinstance(got_obj, str) and str(got_obj) == v
        if kind == "category":
            cats = getattr(got_obj, "cats", None)
            return cats is not None and len(cats) == len(v) and all(str(d) in norms(i) for d, i in zip(cats, v))
        if kind in ("int", "bool", "float"):
            return got_obj == v
        if kind == "datetime":
            return getattr(got_obj, "dt", None) == datetime(*v)
    return False


class _StrSub(str):
    pass


class _HasToIcal:
    """a typed parameter value of the caller's own (as vBoolean for RSVP is of the library): anything with to_ical()"""
    def __init__(self, text):
        self.text = text

    def to_ical(self):
        return self.text.encode("utf-8")


PTYPES = {"str": str, "vText": lambda x: __import__("icalendar").vText(x), "vCalAddress": lambda x: __import__("icalendar").vCalAddress(x),
          "vUri": lambda x: __import__("icalendar").vUri(x), "strsub": _StrSub, "to_ical-object": lambda x: _HasToIcal(x)}


def exp_params(pm):
    out = {}
    for n, v in pm:
        if isinstance(v, list):
            vv = [x.replace('"', "'") for x in v]
            out[n.upper()] = vv[0] if len(vv) == 1 else vv
        else:
            out[n.upper()] = v.replace('"', "'")
    return out


def plain(params):
    out = {}
    for k in params.keys():
        v = params[k]
        out[str(k).upper()] = [str(x) for x in v] if isinstance(v, (list, tuple)) else str(v)
    return out


def strings_of(case):
    vals = []
    for _, v in case["params"]:
        vals += v if isinstance(v, list) else [v]
    if case["kind"] in STRING_KINDS:
        vals += case["value"] if isinstance(case["value"], list) else [case["value"]]
    return vals


def hostile(case):
    """Does the input contain a character the format cannot carry in that position?"""
    for _, v in case["params"]:
        for x in (v if isinstance(v, list) else [v]):
            if CTRL.search(x):
                return True
    if case["kind"] in ("uri", "caladdr", "inline"):
        if "\n" in case["value"]:
            return True
    return False


RESERVED_PROP = {"BEGIN", "END"}
RESERVED_PARAM = {"VALUE", "TZID", "ENCODING"}


def judge(case):
    if case.get("interp") == "-O":
        from vlib.runner import judge_under_python_O
        return judge_under_python_O("c05_contentline", case)
    sut.reset()
    name, pm, kind, v = case["name"], case["params"], case["kind"], case["value"]
    fails = []
    if case["path"] == "tree" and kind != "text" and name.upper() not in RFC_BY_KIND[kind]:
        raise ValueError("malformed case: typed value under a name of another type")   # only reachable by shrinking
    if name.upper() in RESERVED_PROP or any(n.upper() in RESERVED_PARAM for n, _ in pm) or not re.fullmatch(r"[A-Za-z0-9-]+", name):
        raise ValueError("malformed case: reserved or non-token name")
    if len({n.upper() for n, _ in pm}) != len(pm) or not all(re.fullmatch(r"[A-Za-z0-9-]+", n) for n, _ in pm):
        raise ValueError("malformed case: parameter names")
    host = hostile(case)
    exp_pm = exp_params(pm)
    P = Parameters()
    churn = case.get("churn")
    if churn:   # the map had another parameter, was serialised, and the parameter was removed again (history of one object)
        P["X-VERIF-TMP"] = "secret"
        P.to_ical()
        P.to_ical(sorted=False)
    ptypes = case.get("ptypes") or []
    for i_, (n, x) in enumerate(pm):
        # the same characters as a typed string (SENT-BY/DELEGATED-* take vCalAddress, ALTREP/DIR a vUri; any str subclass): the
        # type of a parameter value does not change what is written for its characters
        wrap = PTYPES[ptypes[i_]] if i_ < len(ptypes) else str
        if isinstance(x, list) and i_ < len(ptypes) and ptypes[i_] == "to_ical-object":
            wrap = str           # lists take strings
        P[n] = [wrap(e) for e in x] if isinstance(x, list) else wrap(x)
    if churn:
        P.to_ical()
        if churn == "del":
            del P["X-VERIF-TMP"]
        elif churn == "pop":
            P.pop("X-VERIF-TMP")
        else:
            items = [(k, P[k]) for k in P.keys() if k != "X-VERIF-TMP"]
            P.clear()
            for k, v_ in items:
                P[k] = v_
    # ---------------------------------------------------------------- line level
    if case["path"] == "line":
        try:
            cl = Contentline.from_parts(name, P, mk_value(kind, v))
            wire = cl.to_ical()
        except Exception as e:
            if not host:
                fails.append(Failure("C05.line-roundtrip", "benign-input-refused/" + exc_signature(e), f"{case!r}: {e!r}"[:300]))
            return fails
        try:
            n2, p2, text = Contentline.from_ical(wire).parts()
        except ValueError as e:
            if not host:
                fails.append(Failure("C05.line-roundtrip", "benign-line-rejected-on-read-back", f"{str(cl)!r}: {e}"[:300]))
            return fails
        except Exception as e:
            fails.append(Failure("C05.line-roundtrip", "parts-raises-non-ValueError/" + exc_signature(e), f"{str(cl)!r}: {e!r}"[:300]))
            return fails
        if n2 != name:
            fails.append(Failure("C05.line-structure", "line-name-differs", f"{str(cl)!r} -> {n2!r}"[:300]))
        if not set(plain(p2)) <= set(exp_pm):
            fails.append(Failure("C05.line-structure", "line-additional-parameter", f"{str(cl)!r} -> {plain(p2)!r}"[:300]))
        if plain(p2) != exp_pm:
            fails.append(Failure("C05.line-roundtrip", "line-params-differ", f"{str(cl)!r} -> {plain(p2)!r} exp {exp_pm!r}"[:400]))
        try:
            ok = value_ok(kind, v, got_text=text)
        except ValueError:
            ok = False
        if not ok:
            fails.append(Failure("C05.line-roundtrip", f"line-value-differs/{kind}", f"{str(cl)!r} -> {text!r} (supplied {v!r})"[:400]))
        # history: editing the parameters one split handed out does not change what the next split (of this line, or of
        # another line with the same parameter section) returns
        before = plain(p2)
        _scribble(p2)
        try:
            for nm3, wire3 in ((name, wire), ("X-OTHER", Contentline.from_parts("X-OTHER", P, mk_value(kind, v)).to_ical())):
                n3, p3, _ = Contentline.from_ical(wire3).parts()
                if plain(p3) != before or n3 != nm3:
                    fails.append(Failure("C05.line-structure", "line-split-sees-edits-to-an-earlier-result", f"{wire3!r} -> {plain(p3)!r}, first split gave {before!r}"[:400]))
                    break
        except Exception as e:  # noqa: BLE001
            fails.append(Failure("C05.line-structure", "second-split-raises/" + exc_signature(e), f"{str(cl)!r}: {e!r}"[:300]))
        return fails
    # ---------------------------------------------------------------- tree level
    cal = Calendar()
    cal.add("prodid", "-//verif//sentinel-0")
    ev = Event()
    ev.add("uid", "sentinel-1")
    todo = Todo()
    todo.add("summary", "sentinel-3")
    cal.add_component(ev)
    cal.add_component(todo)
    try:
        val_obj = mk_value(kind, v)
        params_arg = dict((n, x) for n, x in pm)
        if churn:   # the value object carried a parameter, was rendered once, and add() is told to remove it (None)
            val_obj.params["X-VERIF-TMP"] = "secret"
            Contentline.from_parts(name, val_obj.params, val_obj)
            params_arg["X-VERIF-TMP"] = None
        ev.add(name, val_obj, parameters=params_arg or None)
        ev.add("x-zz-last", "sentinel-2")
        raw = cal.to_ical()
    except Exception as e:
        if not host:
            fails.append(Failure("C05.tree-roundtrip", "benign-input-refused/" + exc_signature(e), f"{case!r}: {e!r}"[:300]))
        return fails
    try:
        back = Calendar.from_ical(raw)
    except ValueError as e:
        fails.append(Failure("C05.tree-structure", "whole-parse-fails-instead-of-rejecting-the-property", f"{raw!r}: {e}"[:400]))
        return fails
    except Exception as e:
        fails.append(Failure("C05.tree-structure", "parse-raises-non-ValueError/" + exc_signature(e), f"{raw!r}: {e!r}"[:400]))
        return fails
    comps = sorted(c.name for c in back.walk())
    if comps != ["VCALENDAR", "VEVENT", "VTODO"]:
        fails.append(Failure("C05.tree-structure", "components-differ", f"{comps!r} raw={raw!r}"[:400]))
        return fails
    ev2 = back.walk("VEVENT")[0]
    td2 = back.walk("VTODO")[0]
    if back.subcomponents != [ev2, td2] or ev2.subcomponents or td2.subcomponents:
        fails.append(Failure("C05.tree-structure", "nesting-differs", repr(raw)[:300]))
    if plain_props(back) != {"PRODID": "-//verif//sentinel-0"} or plain_props(td2) != {"SUMMARY": "sentinel-3"}:
        fails.append(Failure("C05.tree-structure", "neighbour-component-changed", f"{dict(back)!r} {dict(td2)!r} raw={raw!r}"[:400]))
    names = set(ev2.keys())
    intended = {"UID", "X-ZZ-LAST", name.upper()}
    if not names <= intended:
        fails.append(Failure("C05.tree-structure", "additional-or-renamed-property", f"{sorted(names)!r} raw={raw!r}"[:400]))
    for k, want in (("UID", "sentinel-1"), ("X-ZZ-LAST", "sentinel-2")):
        if k == name.upper():
            continue
        got = ev2.get(k)
        if got is None or isinstance(got, list) or str(got) != want or len(got.params):
            fails.append(Failure("C05.tree-structure", "sentinel-property-changed", f"{k}={got!r} raw={raw!r}"[:400]))
    if back.errors or td2.errors:
        fails.append(Failure("C05.tree-structure", "error-recorded-on-other-component", f"{back.errors!r} {td2.errors!r}"[:300]))
    got = ev2.get(name)
    if name.upper() in ("UID", "X-ZZ-LAST"):
        return fails
    if got is None:
        if not ev2.errors:
            fails.append(Failure("C05.tree-roundtrip", "property-silently-dropped", f"raw={raw!r}"[:400]))
        elif not host:
            fails.append(Failure("C05.tree-roundtrip", "benign-property-rejected-on-read-back", f"{ev2.errors!r} raw={raw!r}"[:400]))
        return fails
    if isinstance(got, list):
        fails.append(Failure("C05.tree-structure", "property-duplicated", f"raw={raw!r}"[:300]))
        return fails
    gp = plain(getattr(got, "params", {}))
    if not set(gp) <= set(exp_pm):
        fails.append(Failure("C05.tree-structure", "additional-or-renamed-parameter", f"{gp!r} exp {exp_pm!r} raw={raw!r}"[:400]))
    if ev2.errors:
        fails.append(Failure("C05.tree-structure", "error-recorded-although-property-kept", f"{ev2.errors!r}"[:300]))
    if gp != exp_pm:
        fails.append(Failure("C05.tree-roundtrip", "tree-params-differ", f"{gp!r} exp {exp_pm!r} raw={raw!r}"[:400]))
    if not value_ok(kind, v, got_obj=got):
        fails.append(Failure("C05.tree-roundtrip", f"tree-value-differs/{kind}", f"got={got!r} supplied={v!r} raw={raw!r}"[:400]))
    if hasattr(got, "params"):
        _scribble(got.params)
        try:
            got3 = Calendar.from_ical(raw).walk("VEVENT")[0].get(name)
            gp3 = plain(getattr(got3, "params", {}))
            if gp3 != gp:
                fails.append(Failure("C05.tree-structure", "tree-parse-sees-edits-to-an-earlier-result", f"{gp3!r}, first parse gave {gp!r} raw={raw!r}"[:400]))
        except Exception as e:  # noqa: BLE001
            fails.append(Failure("C05.tree-structure", "second-parse-raises/" + exc_signature(e), f"raw={raw!r}: {e!r}"[:300]))
    return fails


def _scribble(params):
    for k in list(params.keys()):
        if isinstance(params[k], list):
            params[k].append("scribble")
    params["X-SCRIBBLE"] = "1"


def plain_props(comp):
    return {k: str(comp[k]) for k in comp.keys()}


def info(case):
    ss = strings_of(case)
    joined = "\x00".join(ss)
    classes = ["kind:" + case["kind"], "path:" + case["path"]]
    if case.get("interp"):
        classes.append("config:python" + case["interp"])
    if "\n" in joined or "\r" in joined:
        classes.append("has-linebreak")
        if case.get("interp"):
            classes.append("config:python-O+linebreak")
    if re.search(r"[:;]", joined):
        classes.append("has-colon-or-semicolon")
    if "BEGIN:" in joined or "END:" in joined:
        classes.append("has-begin-end-text")
    if hostile(case):
        classes.append("outcome:refused")   # refusal/rejection is an accepted outcome for this input
    else:
        classes.append("outcome:intact")    # must round-trip (outside known-finding regions)
    return {"nontrivial": bool(re.search(r'[\\;:,"%\r\n\x00-\x1f]', joined)), "classes": classes}


# ----------------------------------------------------------------------------- RC-B regions

_RCB_PARAM = re.compile(r"\\[,:;\\]|\\$|%2C|%3A|%3B|%5C")
_RCB_TEXT = re.compile(r"\\(?:[\\;,nN:\n]|\r\n)|%2C|%3A|%3B|%5C")
_RCB_RAW = re.compile(r"\\[,:;\\]|%2C|%3A|%3B|%5C")


def region_rcb(case):
    """RC-B (Contentline.parts un-escaping of the whole line): some parameter value contains backslash + , : ; \\ or ends in a
    backslash or holds a literal %2C/%3A/%3B/%5C; or the TEXT value contains an escape-like sequence (as in C07); or a raw
    (URI / CAL-ADDRESS / inline) value contains backslash + , : ; \\ or a placeholder; or a CATEGORIES item contains a
    comma, a backslash or a placeholder."""
    for _, v in case["params"]:
        for x in (v if isinstance(v, list) else [v]):
            if _RCB_PARAM.search(x):
                return True
    k, v = case["kind"], case["value"]
    if k == "text":
        return bool(_RCB_TEXT.search(v))
    if k in ("uri", "caladdr", "inline"):
        return bool(_RCB_RAW.search(v))
    if k == "category":
        return any(_RCB_TEXT.search(i) or "," in i or "\\" in i for i in v)
    return False


SHRINK_STRINGS = True
REGIONS = {"rcb-line": region_rcb}

# ----------------------------------------------------------------------------- strategies

FRAGS = ["\\", ";", ":", ",", '"', "%", "=", "^", "\r", "\n", "\t", "\x00", "\x7f", " ", "BEGIN:VEVENT", "END:VCALENDAR", "END:VEVENT",
         "\r\n ", "\r\nBEGIN:VTODO\r\n", "\nEND:VEVENT\n", "%3A", "%5C", "\\n", "\\;", "a", "b", "1", "x-y", "é", " "]
# the percent escapes of RC-B in lower and mixed case (ordinary URL-encoded text, not the upper-case forms), and their neighbours
FRAGS += ["\ufdd0", "\ufdd1", "\ufdd2", "\ufdd3", "\ufdef", "\ufffe", "\uffff", "\ue000", "\U0010fffe", "\x1a", "\x1b",       # placeholder candidates
          "%2c", "%3a", "%3b", "%5c", "%2f", "%3a%2f%2f", "%25", "%253A", "%22", "%0A", "%0d%0a", "%2C".lower() + "%3A"]
hostile_text = st.lists(st.one_of(st.sampled_from(FRAGS), st.characters(blacklist_categories=("Cs",))), max_size=8).map("".join)
mild_text = st.lists(st.sampled_from(["\\", ";", ":", ",", '"', "%", "=", "^", " ", "BEGIN:VEVENT", "END:VCALENDAR", "a", "b", "\t",
                                      "mailto:", "http://x/", "é", "'", "%2c", "%3a", "%3b", "%5c", "%22", "?q=is%3apr"]), max_size=8).map("".join)
anytext = st.one_of(hostile_text, mild_text, mild_text)
token = st.lists(st.sampled_from(list("abcdxyzABCXYZ0189-")), min_size=1, max_size=10).map("".join)
RESERVED_PROP = {"BEGIN", "END"}
RESERVED_PARAM = {"VALUE", "TZID", "ENCODING"}
KNOWN_TYPED = {"ATTACH", "CATEGORIES", "GEO", "PERCENT-COMPLETE", "PRIORITY", "COMPLETED", "DTEND", "DUE", "DTSTART", "DURATION", "FREEBUSY",
               "TZOFFSETFROM", "TZOFFSETTO", "TZURL", "ATTENDEE", "ORGANIZER", "RECURRENCE-ID", "URL", "EXDATE", "EXRULE", "RDATE", "RRULE",
               "REPEAT", "TRIGGER", "ACKNOWLEDGED", "CREATED", "DTSTAMP", "LAST-MODIFIED", "SEQUENCE", "UID", "X-ZZ-LAST", "RESOURCES"}


def _casev(draw, s):
    return {0: s, 1: s.lower(), 2: s.title(), 3: s.upper()}[draw(st.integers(0, 3))]


@st.composite
def cases(draw):
    kind = draw(st.sampled_from(["text", "text", "text", "uri", "caladdr", "inline", "category", "category", "int", "datetime", "bool", "float"]))
    path = draw(st.sampled_from(["line", "tree", "tree"]))
    if kind == "text":
        name = draw(st.one_of(st.sampled_from(RFC_BY_KIND["text"]), token.map(lambda t: "X-" + t), token))
    elif RFC_BY_KIND[kind] and (path == "tree" or draw(st.booleans())):
        name = draw(st.sampled_from(RFC_BY_KIND[kind]))
    else:
        name = "X-" + draw(token)
        if path == "tree":
            path = "line"     # unknown names are read back as TEXT, so typed non-text values only round-trip at line level
    if name.upper() in RESERVED_PROP or (kind == "text" and name.upper() in KNOWN_TYPED):
        name = "X-" + name
    name = _casev(draw, name)
    pnames = draw(st.lists(token.filter(lambda t: t.upper() not in RESERVED_PARAM), max_size=3, unique_by=lambda s: s.upper()))
    pm = []
    for pn in pnames:
        if draw(st.integers(0, 3)) == 0:
            pm.append([pn, draw(st.lists(anytext, min_size=1, max_size=3))])
        else:
            pm.append([pn, draw(anytext)])
    if kind in ("text", "uri", "caladdr", "inline"):
        v = draw(anytext)
    elif kind == "category":
        v = draw(st.lists(anytext, min_size=1, max_size=3))
    elif kind == "int":
        v = draw(st.integers(-10**6, 10**6))
    elif kind == "bool":
        v = draw(st.booleans())
    elif kind == "float":
        v = draw(st.sampled_from([0.5, -1.25, 3.0, 100.125]))
    else:
        v = [draw(st.integers(1990, 2030)), draw(st.integers(1, 12)), draw(st.integers(1, 28)), draw(st.integers(0, 23)),
             draw(st.integers(0, 59)), draw(st.integers(0, 59))]
    return {"path": path, "name": name, "params": pm, "kind": kind, "value": v, "churn": draw(st.sampled_from([None, None, None, "del", "pop", "clear"])),
            "ptypes": [draw(st.sampled_from(["str", "str", "vText", "vCalAddress", "vUri", "strsub", "to_ical-object"])) for _ in pm]}


INJ = ["\r", "\n", ":", ";", ",", '"', "\\", "BEGIN:VTODO", "a"]


def _nth(i, maxlen=3):
    n = len(INJ)
    for k in range(maxlen + 1):
        if i < n ** k:
            out = []
            for _ in range(k):
                i, r = divmod(i, n)
                out.append(INJ[r])
            return "".join(out)
        i -= n ** k
    raise IndexError


_T = sum(len(INJ) ** k for k in range(4))


def _sweep(i):
    where, i = divmod(i, 2 * _T)
    path, vi = divmod(i, _T)
    s = _nth(vi)
    p = ["line", "tree"][path]
    if where == 0:
        return {"path": p, "name": "X-Inj", "params": [], "kind": "text", "value": s}
    if where == 1:
        return {"path": p, "name": "X-Inj", "params": [["X-P", s]], "kind": "text", "value": "v", "ptypes": [["str", "vCalAddress", "vUri", "vText", "strsub"][len(s) % 5]]}
    if where == 2:
        return {"path": p, "name": "URL", "params": [], "kind": "uri", "value": s}
    return {"path": p, "name": "CATEGORIES", "params": [["X-P", [s, "z"]]], "kind": "category", "value": [s, "k"]}


def _name_sweep():
    """every listed RFC property name x canonical values with each structural character, on both paths"""
    out = []
    vals = {"text": ["a\nb", "a;b,c:d", "two\r\nlines", 'q"uote', "plain", ""], "uri": ["http://example.com/a;b,c?d=e", "mailto:a@example.com"],
            "caladdr": ["mailto:a,b@example.com", "MAILTO:x;y@example.com"]}
    for kind, names in RFC_BY_KIND.items():
        for nm in names:
            for v in vals.get(kind, []):
                for path in ("line", "tree"):
                    out.append({"path": path, "name": nm, "params": [["X-P", "1;2"]] if len(v) % 2 else [], "kind": kind, "value": v})
    return out


def streams(tier):
    n = 2500 if tier == "quick" else 50000
    return [
        Stream("every-listed-name", "fixed", 0, 4, _name_sweep, True, False),
        Stream("injection-sweep", "enum", 4 * 2 * _T, 8, _sweep, True, True),
        Stream("triples", "hyp", n, 16, cases),
        # configuration: python -O.  One child interpreter per case, so the stream is small.
        Stream("triples-under-python-O", "hyp", 12 if tier == "quick" else 200, 16, lambda: cases().map(lambda c: dict(c, interp="-O")), timeout_s=120),
    ]


LEVEL_TEXT = ("Generated hostile names/parameters/values are pushed through join/split and through a sentinel calendar; the oracle "
              "is structural containment (no additional or renamed component/property/parameter) plus exact round-trip where the "
              "input is carriable. All short combinations of the injection alphabet are enumerated; the rest is sampled.")
