"""C01 - Parse, serialise, parse of any accepted calendar is stable and lossless."""
import glob
import os
import re

from hypothesis import strategies as st

from vlib.runner import Failure, Stream, exc_signature, VERIF
from vlib import sut, trees as T, values as V
from vlib.model import ical_text as M

from checks.c02_api_roundtrip import expected_value, got_value, EXPECT_CLASS

from icalendar import Calendar, Component

ID = "C01"
TECHNIQUE = "grammar-based generation (abstract trees rendered by an own RFC 5545 renderer with random folds) + token-level mutation of real fixtures (+ atheris on raw bytes in the thorough tier); round-trip stability oracle and denotation oracle against the abstract tree"
RULE = ("G1 (Hypothesis grammar): abstract trees (depth <= 3, fan-out <= 3; known, X- and unknown component names in any case; properties "
        "from the harness's RFC table, X- names and random tokens; 0-2 parameters with safe / must-quote / list values; values of the "
        "declared kind; TEXT over an alphabet weighted to \\ n N ; , : \" % 2 3 5 A B C and LF) rendered by the harness's own renderer "
        "with random folds (SP/TAB) and CRLF/LF, single and multiple=True. G2: the 102 repository fixtures with 1-4 line-level mutations "
        "(delete / duplicate / swap lines, splice a token, change case). G3 (thorough): atheris on raw bytes. from_ical decides "
        "acceptance. O-stable: s1 = to_ical(T1) does not raise, T2 = from_ical(s1) is accepted, extract(T1) == extract(T2), "
        "to_ical(T2) == s1. O-denote (G1 only): the first parse has exactly the names (upper-cased), parameters (quotes removed) and "
        "typed values of the abstract tree. Non-trivial: accepted input with a property whose value or parameter contains a "
        "character outside [A-Za-z0-9 -] or whose kind is not text; distinct by hash of the input.")
RULE += ' Rounds 7-8: complete own-zone VTIMEZONE definitions with extension properties on both levels are attached to a third of the calendars; a quarter of the cases respells one property-name letter with U+017F/U+0131 (stability clause only); URL-encoded fragments (%2c, %3a, %22 ...) in mild text.'
ASSUMPTIONS = ["generated TEXT contains no raw CR (C05/C07 cover it)", "RESOURCES is a single TEXT in this library",
               "random VTIMEZONE components of generated trees carry no TZID; complete definitions of own zones are attached as they are (what they mean is C12's domain, here only that every property of them is kept)"]
REQUIRED_CLASSES = ["history:zone-ids-looked-up-before", "gen:tree", "gen:fixture", "accepted", "has-backslash", "multiple", "lf-only", "extra-folds", "unknown-component", "non-text-kind"]

_FIX = None


def fixtures():
    global _FIX
    if _FIX is None:
        _FIX = {}
        for p in sorted(glob.glob(os.path.join(VERIF, "corpus", "*", "*.ics"))):
            with open(p, "rb") as f:
                _FIX[os.path.relpath(p, os.path.join(VERIF, "corpus"))] = f.read()
    return _FIX


def mutate(raw: bytes, muts):
    try:
        text = raw.decode("utf-8")
    except UnicodeDecodeError:
        text = raw.decode("utf-8", "replace")
    lines = text.split("\n")
    for op, i, j, tok in muts:
        if not lines:
            break
        i %= len(lines)
        j %= len(lines)
        if op == "del":
            del lines[i]
        elif op == "dup":
            lines.insert(j, lines[i])
        elif op == "swap":
            lines[i], lines[j] = lines[j], lines[i]
        elif op == "splice":
            ln = lines[i]
            pos = j % (len(ln) + 1)
            lines[i] = ln[:pos] + tok + ln[pos:]
        elif op == "lower":
            lines[i] = lines[i].lower()
        elif op == "replace-line":
            lines[i] = tok
    return "\n".join(lines)


def parse(text, multiple, as_bytes):
    data = text.encode("utf-8", "surrogateescape") if as_bytes else text
    return Calendar.from_ical(data, multiple=multiple)


def input_text(case):
    if case["gen"] == "tree":
        parts = [M.render(t, folds=case.get("folds"), eol=case.get("eol", "\r\n"), fold_ws=case.get("fold_ws", " ")) for t in case["trees"]]
        text = "".join(parts)
        if case.get("respell") is not None:
            # not RFC text any more, but text the parser accepts: one letter of a property name is replaced by a non-ASCII letter whose
            # upper case is that ASCII letter (U+017F long s, U+0131 dotless i).  Only the clause for accepted input applies to it.
            ms = [m for m in re.finditer(r"(?m)^(?!BEGIN|END|begin|end|Begin|End)([A-Za-z0-9-]*?)([SsIi])(?=[A-Za-z0-9-]*[;:])", text)]
            if ms:
                m = ms[case["respell"] % len(ms)]
                text = text[:m.start(2)] + ("\u017f" if m.group(2) in "Ss" else "\u0131") + text[m.end(2):]
        return text
    if case["gen"] == "fixture":
        return mutate(fixtures()[case["fixture"]], case["muts"])
    if "b64" in case:
        import base64
        return base64.b64decode(case["b64"]).decode("utf-8", "surrogateescape")
    return case["raw"]


def raw_case(data: bytes):
    """case for the atheris driver"""
    import base64
    return {"gen": "raw", "provider": "zoneinfo" if len(data) % 2 else "pytz", "b64": base64.b64encode(data).decode("ascii"), "multiple": True, "as_bytes": True}


def judge(case):
    provider = case.get("provider", "zoneinfo")
    sut.reset(provider)
    text = input_text(case)
    multiple = bool(case.get("multiple"))
    fails = []
    if case.get("pre_lookup"):
        # history: every zone id the text uses was met before in this provider session, in an invitation that does not define
        # it (a failed lookup leaves nothing behind)
        for tzid in sorted(set(re.findall(r"(?i)TZID=\"?([^\":;,\r\n]+)", text)))[:6]:
            try:
                Calendar.from_ical(f"BEGIN:VCALENDAR\r\nBEGIN:VEVENT\r\nDTSTART;TZID=\"{tzid}\":20200101T000000\r\nEND:VEVENT\r\nEND:VCALENDAR\r\n")
            except Exception:  # noqa: BLE001 - only what follows is judged
                pass
    try:
        t1 = parse(text, multiple, case.get("as_bytes", True))
    except ValueError:
        if case["gen"] == "tree" and case.get("respell") is None:
            fails.append(Failure("C01.denote", "well-formed-input-rejected", f"{text[:300]!r}"))
        return fails
    except Exception:  # noqa: BLE001 - not accepted; escapes other than ValueError are C04's clause
        return fails
    comps1 = t1 if multiple else [t1]
    # ---- O-stable
    try:
        s1 = b"".join(c.to_ical() for c in comps1)
    except Exception as e:
        fails.append(Failure("C01.stable", "serialise-of-accepted-input-raises/" + exc_signature(e), f"{e!r} input={text[:200]!r}"[:500]))
        return fails
    try:
        sut.reset(provider)
        t2 = Calendar.from_ical(s1, multiple=True)
    except Exception as e:
        fails.append(Failure("C01.stable", "reparse-raises/" + exc_signature(e), f"{e!r} s1={s1[:300]!r}"[:600]))
        return fails
    if len(t2) != len(comps1):
        fails.append(Failure("C01.stable", "component-count-differs", f"{len(comps1)} vs {len(t2)}"))
    else:
        e1, e2 = [T.extract(c) for c in comps1], [T.extract(c) for c in t2]
        if e1 != e2:
            fails.append(Failure("C01.stable", "second-parse-differs", _diff(e1, e2) + f" | input={text[:160]!r}"))
        try:
            s2 = b"".join(c.to_ical() for c in t2)
            if s2 != s1:
                fails.append(Failure("C01.stable", "second-serialisation-differs", _bytes_diff(s1, s2)))
        except Exception as e:
            fails.append(Failure("C01.stable", "second-serialise-raises/" + exc_signature(e), repr(e)[:200]))
    # ---- O-denote
    if case["gen"] == "tree" and case.get("respell") is None:
        if len(comps1) != len(case["trees"]):
            fails.append(Failure("C01.denote", "component-count-differs", f"{len(comps1)} vs {len(case['trees'])}"))
        else:
            for tree, comp in zip(case["trees"], comps1):
                fails += denote(tree, comp, provider)
    # ---- O-history: the parse is a function of the text alone.  Scribble on everything mutable the first result handed out
    # (parameters, list-valued parameters, value lists), parse the same text again and compare with what the first parse
    # gave before the scribbling: results of different parses (and equal lines of one parse) share no state.
    try:
        e_before = [T.extract(c) for c in comps1]
        _scribble(comps1)
        sut.reset(provider)      # same (empty) VTIMEZONE cache as for the first parse: that history is C12's RC-L, not this clause
        t3 = parse(text, multiple, case.get("as_bytes", True))
        e_after = [T.extract(c) for c in (t3 if multiple else [t3])]
        if e_after != e_before:
            fails.append(Failure("C01.denote", "parse-depends-on-edits-to-an-earlier-result", _diff(e_before, e_after) + f" | input={text[:160]!r}"))
    except Exception as e:  # noqa: BLE001
        fails.append(Failure("C01.denote", "second-parse-of-the-same-text-raises/" + exc_signature(e), f"{e!r} input={text[:200]!r}"[:500]))
    return fails[:10]


def _scribble(comps):
    """edit in place what a caller may edit on a parsed tree: parameter maps, list-valued parameters, multi-value lists"""
    for root in comps:
        for comp in root.walk():
            for name in list(comp.keys()):
                vals = comp[name]
                many = vals if isinstance(vals, list) else [vals]
                for v in many:
                    params = getattr(v, "params", None)
                    if params is None:
                        continue
                    for k in list(params.keys()):
                        if isinstance(params[k], list):
                            params[k].append("scribble")
                    params["X-SCRIBBLE"] = "1"
                    for attr in ("cats", "dts"):
                        if isinstance(getattr(v, attr, None), list):
                            getattr(v, attr).append(getattr(v, attr)[0]) if getattr(v, attr) else None
                if isinstance(vals, list):
                    vals.append(vals[0])


def denote(tree, root, provider):
    fails = []
    nodes = list(T.preorder(tree))
    got = root.walk()
    if [n["c"].upper() for n in nodes] != [c.name for c in got]:
        return [Failure("C01.denote", "nesting-differs", f"{[n['c'].upper() for n in nodes]!r} vs {[c.name for c in got]!r}")]
    for node, comp in zip(nodes, got):
        if comp.errors:
            fails.append(Failure("C01.denote", "well-formed-property-dropped", f"{comp.name}: {comp.errors!r}"[:400]))
        byname = {}
        for p in node["p"]:
            byname.setdefault(p[0].upper(), []).append(p)
        if sorted(byname) != sorted(str(k) for k in comp.keys()):
            fails.append(Failure("C01.denote", "property-names-differ", f"{comp.name}: {sorted(byname)!r} vs {sorted(comp.keys())!r}"[:400]))
            continue
        for nm, ps in byname.items():
            vals = comp[nm]
            vals = vals if isinstance(vals, list) else [vals]
            # FREEBUSY with several periods on one line is split into several values: compare flattened
            exp_items = []
            for p in ps:
                if nm == "FREEBUSY" and p[1]["k"] == "periods":
                    for one in p[1]["v"]:      # every period of the line is one value carrying the line's parameters
                        exp_items.append([p[0], one] + list(p[2:]))
                else:
                    exp_items.append(p)
            if len(vals) != len(exp_items):
                fails.append(Failure("C01.denote", "value-count-differs", f"{nm}: {len(vals)} vs {len(exp_items)}"))
                continue
            for p, v in zip(exp_items, vals):
                spec = p[1]
                kind = spec["k"]
                want = expected_value(nm, spec, provider)
                g = got_value(v)
                if nm not in T.RFC_PROPS and kind == "text":
                    pass
                if g != want:
                    fails.append(Failure("C01.denote", f"value-differs/{kind}", f"{nm}: got {g!r} want {want!r}"[:500]))
                user = p[2] if len(p) > 2 and p[2] else {}
                _, derived = M.value_text(spec)
                if nm == "FREEBUSY":
                    derived = {k: x for k, x in derived.items() if k != "VALUE"}
                if M.DEFAULT_VALUE.get(nm) == derived.get("VALUE"):
                    derived = {k: x for k, x in derived.items() if k != "VALUE"}
                exp_params = {k.upper(): x for k, x in derived.items()}
                for k, x in user.items():
                    exp_params[k.upper()] = ([y.replace('"', "'") for y in x] if len(x) > 1 else x[0].replace('"', "'")) if isinstance(x, list) else x.replace('"', "'")
                gp = {str(k).upper(): (list(map(str, x)) if isinstance(x, (list, tuple)) else str(x)) for k, x in getattr(v, "params", {}).items()}
                if gp != exp_params:
                    fails.append(Failure("C01.denote", "parameters-differ", f"{nm}: got {gp!r} want {exp_params!r}"[:400]))
    return fails


def _diff(e1, e2):
    for a, b in zip(e1, e2):
        if a != b:
            return _cdiff(a, b)
    return "?"


def _cdiff(a, b):
    if a[0] != b[0]:
        return f"name {a[0]} vs {b[0]}"
    da, db = dict(a[1]), dict(b[1])
    for k in sorted(set(da) | set(db)):
        if da.get(k) != db.get(k):
            return f"{a[0]}.{k}: {da.get(k)!r} -> {db.get(k)!r}"[:500]
    if len(a[2]) != len(b[2]):
        return f"{a[0]}: {len(a[2])} vs {len(b[2])} subcomponents"
    for x, y in zip(a[2], b[2]):
        if x != y:
            return _cdiff(x, y)
    return "?"


def _bytes_diff(a, b):
    la, lb = a.split(b"\r\n"), b.split(b"\r\n")
    for x, y in zip(la, lb):
        if x != y:
            return f"{x[:120]!r} vs {y[:120]!r}"
    return f"{len(la)} vs {len(lb)} lines"


_PLAIN = re.compile(r"^[A-Za-z0-9 -]*$")


def info(case):
    classes = ["gen:" + case["gen"]]
    text = input_text(case)
    if case.get("pre_lookup") and re.search(r"(?i)TZID=", text):
        classes.append("history:zone-ids-looked-up-before")
    nt = False
    if case.get("respell") is not None and ("\u017f" in text or "\u0131" in text):
        classes.append("property-name-with-non-ascii-letter-of-ascii-upper-case")
    if case["gen"] == "tree":
        for tree in case["trees"]:
            for n in T.preorder(tree):
                if n["c"].upper() not in T.KNOWN_COMPONENTS:
                    classes.append("unknown-component")
                for p in n["p"]:
                    if p[1]["k"] != "text":
                        classes.append("non-text-kind")
                        nt = True
                    elif not _PLAIN.match(p[1]["v"]):
                        nt = True
                    if len(p) > 2 and p[2]:
                        nt = True
        if case.get("eol") == "\n":
            classes.append("lf-only")
        if case.get("folds") and any(case["folds"]):
            classes.append("extra-folds")
    else:
        nt = True
    if case.get("multiple"):
        classes.append("multiple")
    if "\\" in text:
        classes.append("has-backslash")
    try:
        sut.reset(case.get("provider", "zoneinfo"))
        parse(text, bool(case.get("multiple")), case.get("as_bytes", True))
        classes.append("accepted")
    except Exception:  # noqa: BLE001
        classes.append("rejected")
        nt = False
    return {"nontrivial": nt, "classes": sorted(set(classes))}


# ----------------------------------------------------------------------------- known-finding region (RC-B)
_RCB_TEXT = re.compile(r"\\\\|\\:|%2C|%3A|%3B|%5C")     # two backslashes, backslash-colon, or a literal placeholder
_RCB_RAW = re.compile(r"\\|%2C|%3A|%3B|%5C")
_TEXT_NAMES = {n for n, (k, _) in T.RFC_PROPS.items() if k == "text"}


def region_rcb_input(case):
    r"""RC-B: Contentline.parts() removes one level of backslash escaping (\, \; \: \\) from the whole line and maps literal
    %2C/%3A/%3B/%5C before the typed decoder runs.  A single-level TEXT escape (\; \, \n) survives that by luck; everything
    else does not.  Region (per unfolded input line): a backslash or placeholder in the parameter part; in a TEXT-typed value
    (RFC text names, X- and unknown names): two consecutive backslashes, backslash-colon or a placeholder; in any other value
    (incl. CATEGORIES, URI, ...): any backslash or placeholder."""
    for ln in _unfolded_lines(input_text(case)):
        if "\\" not in ln and "%" not in ln:
            continue
        # split at the first colon outside double quotes
        q, idx = False, -1
        for i, ch in enumerate(ln):
            if ch == '"':
                q = not q
            elif ch == ":" and not q:
                idx = i
                break
        head, value = (ln, "") if idx < 0 else (ln[:idx], ln[idx + 1:])
        name = re.split(r"[;:]", head, 1)[0].strip().upper()
        if _RCB_RAW.search(head):
            return True
        if name in _TEXT_NAMES or name not in T.RFC_PROPS:
            if _RCB_TEXT.search(value):
                return True
        elif _RCB_RAW.search(value):
            return True
    return False


def _unfolded_lines(text):
    # split exactly like the library does (a bare CR or U+2028 is data, not a line end)
    return [ln for ln in re.split(r"\r?\n", re.sub(r"(\r?\n)+[ \t]", "", text)) if ln]


def region_mismatched_end(case):
    """RC-Z1: from_ical does not compare the name of an END line with the open BEGIN.  Region: scanning the unfolded input with
    a stack, some END names another component than the innermost open one (or closes nothing)."""
    stack = []
    for ln in _unfolded_lines(input_text(case)):
        m = re.match(r"(?i)\s*(BEGIN|END)\s*(?:;[^:]*)?:(.*)$", ln)
        if not m:
            continue
        name = m.group(2).upper()        # exact value (the parser does not strip it either: 'END:VTIMEZONE\r' is another name)
        if m.group(1).upper() == "BEGIN":
            stack.append(name)
        else:
            if not stack or stack[-1] != name:
                return True
            stack.pop()
    return bool(stack)


def region_tzid_property_after_vtimezone(case):
    """RC-L (see C12) seen through C01: time zones of custom TZIDs are resolved while reading, in file order.  Serialising
    writes a component's own properties before its subcomponents, so a property with a TZID parameter that stands *after* a
    VTIMEZONE subcomponent of the same component is re-read before the definition and becomes floating.  Region: the input has
    such a line."""
    stack = []     # per open component: has a VTIMEZONE child been closed already?
    for ln in _unfolded_lines(input_text(case)):
        m = re.match(r"(?i)\s*(BEGIN|END)\s*(?:;[^:]*)?:(.*)$", ln)
        if m:
            if m.group(1).upper() == "BEGIN":
                stack.append([m.group(2).strip().upper(), False])
            elif stack:
                name, _ = stack.pop()
                if stack and name == "VTIMEZONE":
                    stack[-1][1] = True
            continue
        if stack and stack[-1][1] and re.search(r"(?i);\s*TZID\s*=", ln.split(":", 1)[0] + ":"):
            return True
        if stack and stack[-1][1] and re.search(r"(?i);TZID=", ln):
            return True
    return False


def region_component_name_needs_escaping(case):
    """RC-Z2: BEGIN/END values are TEXT-escaped twice on output.  Region: a BEGIN/END line whose value contains ; , or backslash."""
    return any(re.match(r"(?i)\s*(BEGIN|END)\s*(?:;[^:]*)?:.*[;,\\]", ln) for ln in _unfolded_lines(input_text(case)))


REGIONS = {"rcb-input": region_rcb_input, "mismatched-end": region_mismatched_end, "tzid-property-after-vtimezone": region_tzid_property_after_vtimezone, "component-name-needs-escaping": region_component_name_needs_escaping}

# ----------------------------------------------------------------------------- strategies
_hostile = st.lists(st.one_of(st.sampled_from(["\\", "n", "N", ";", ",", ":", '"', "%", "2", "3", "5", "A", "B", "C", " ", "\n", "a", "é", "%2C", "\\n", "\\;"]),
                              st.characters(blacklist_categories=("Cs", "Cc"))), max_size=10).map("".join)
_mild = st.lists(st.sampled_from([";", ",", ":", '"', "% ", " ", "a", "b", "é", "\n", "2C", "x=y", "'", "3A",
                                  # URL-encoded text: lower-case forms of the RC-B escapes and other codes are plain characters
                                  "%2c", "%3a", "%3b", "%5c", "%22", "%20", "q=%22exact%20phrase%22", "%2f"]), max_size=8).map("".join)


def _retext(tree, draw, hostile=None):
    """replace the text values of a generated tree by hostile (about 1 tree in 4) or mild text; mild text stays outside the
    RC-B region so that most of the non-trivial mass is checked with the full oracle"""
    if hostile is None:
        hostile = draw(st.integers(0, 3)) == 0
    t = dict(tree)
    ps = []
    for p in tree["p"]:
        q = list(p)
        spec = dict(q[1])
        if spec["k"] == "text":
            spec["v"] = draw(_hostile if hostile else _mild).replace("\r", "")
        elif spec["k"] == "cats":
            spec["v"] = [draw(_hostile if hostile else _mild).replace("\r", "") for _ in spec["v"]]
        q[1] = spec
        if q[0].upper() == "TZID" and tree["c"].upper() == "VTIMEZONE":
            continue
        if q[0].upper() == "RESOURCES":
            continue
        # calendar dates span 0001-9999: move some date / floating / UTC values to early and late years
        if spec["k"] in ("date", "naive", "utc") and draw(st.integers(0, 3)) == 0:
            v = list(spec["v"])
            v[0] = draw(st.sampled_from([1, 2, 99, 100, 753, 999, 1000, 1582, 1601, 1899, 2400, 9999]))
            spec["v"] = v
            q[1] = spec
        # unquoted parameter values may carry blanks anywhere (RFC 5545 paramtext)
        if len(q) > 2 and q[2] and draw(st.integers(0, 2)) == 0:
            k0 = sorted(q[2])[0]
            blank = draw(st.sampled_from([" x", "x ", " ", "a  b", " lead and trail ", "\tx"]))
            q[2] = dict(q[2], **{k0: ([blank, "y"] if isinstance(q[2][k0], list) else blank)})
        ps.append(q)
    t["p"] = ps
    t["s"] = [_retext(s, draw, hostile) for s in tree["s"]]
    return t


@st.composite
def tree_cases(draw):
    n = draw(st.sampled_from([1, 1, 1, 2, 3]))
    trees = []
    for _ in range(n):
        t = draw(st.one_of(T.s_tree(2, 3, False, "VCALENDAR"), T.s_tree(2, 3, False), T.s_tree(1, 3, False, "VEVENT")))
        t = _retext(t, draw)
        if draw(st.booleans()):
            t["c"] = draw(st.sampled_from([t["c"].lower(), t["c"].title(), t["c"]]))
        if draw(st.integers(0, 3)) == 0:     # a FREEBUSY line with several periods and parameters
            periods = draw(st.lists(T.s_value("period"), min_size=2, max_size=3))
            fb = {"c": "VFREEBUSY", "p": [["FREEBUSY", {"k": "periods", "v": periods}, {"FBTYPE": draw(st.sampled_from(["BUSY", "FREE"])), "X-P": "q"}]], "s": []}
            t["s"] = t["s"] + [fb]
        if t["c"].upper() == "VCALENDAR" and draw(st.integers(0, 2)) == 0:
            # a well-formed definition of a zone of its own, with extension properties on both levels (producers write X-LIC-LOCATION,
            # X-TZINFO, X-MICROSOFT-...): they are part of what the text denotes like any other property
            import copy
            from checks.c09_parse_invariance import VTZ
            z = copy.deepcopy(VTZ[draw(st.sampled_from(sorted(VTZ)))])
            zid = z["p"][0][1]["v"] + "-" + str(draw(st.integers(0, 9)))
            z["p"][0][1]["v"] = zid
            if draw(st.booleans()):
                z["p"].append(["X-LIC-LOCATION", {"k": "text", "v": zid}])
            for ob in z["s"]:
                if draw(st.booleans()):
                    ob["p"].append([draw(st.sampled_from(["X-ORIGIN", "X-TZINFO", "COMMENT"])), {"k": "text", "v": draw(_mild).replace("\r", "")}])
            t["s"] = ([z] + t["s"]) if draw(st.booleans()) else (t["s"] + [z])
        trees.append(t)
    return {"gen": "tree", "provider": draw(st.sampled_from(["zoneinfo", "pytz"])), "trees": trees, "multiple": n > 1 or draw(st.booleans()),
            "folds": draw(st.one_of(st.none(), st.lists(st.integers(0, 40), min_size=1, max_size=5))),
            "fold_ws": draw(st.sampled_from([" ", "\t", " \t"])), "eol": draw(st.sampled_from(["\r\n", "\r\n", "\n"])),
            "as_bytes": draw(st.booleans()), "pre_lookup": draw(st.sampled_from([False, False, True])),
            "respell": draw(st.one_of(st.none(), st.none(), st.none(), st.integers(0, 40)))}


TOKENS = [":", ";", ",", "=", '"', "\\", "\\n", "\\,", "BEGIN:VEVENT", "END:VEVENT", "TZID=Europe/Berlin", "VALUE=DATE", "Z", "/", "P1D", "20200101",
          "T000000", "%2C", " ", "\t", "X-FOO", "FREQ=DAILY", "é", "RRULE:", "-", "+"]


@st.composite
def fixture_cases(draw):
    names = sorted(fixtures())
    muts = draw(st.lists(st.tuples(st.sampled_from(["del", "dup", "swap", "splice", "splice", "lower", "replace-line"]), st.integers(0, 400),
                                   st.integers(0, 400), st.sampled_from(TOKENS)).map(list), min_size=0, max_size=4))
    return {"gen": "fixture", "provider": draw(st.sampled_from(["zoneinfo", "pytz"])), "fixture": draw(st.sampled_from(names)), "muts": muts,
            "multiple": draw(st.booleans()), "as_bytes": True, "pre_lookup": draw(st.sampled_from([False, False, True]))}


def _plain_fixtures():
    return [{"gen": "fixture", "provider": p, "fixture": n, "muts": [], "multiple": True, "as_bytes": True} for n in sorted(fixtures()) for p in ("zoneinfo", "pytz")]


def _lone_cr_cases():
    """accepted, not well-formed: a lone CR inside a value (kept as data by the parser) at every column of a long line - the
    re-serialisation folds the line, and the CR ends up at every position relative to a fold"""
    out = []
    for name in ("DESCRIPTION", "X-LONG-NAME-OF-AN-EXTENSION"):
        for col in range(0, 320):
            for ch in ("\r", "\r\r"):
                text = "BEGIN:VCALENDAR\r\nBEGIN:VEVENT\r\n" + name + ":" + "a" * col + ch + "b" * (330 - col) + "\r\nEND:VEVENT\r\nEND:VCALENDAR\r\n"
                out.append({"gen": "raw", "provider": "zoneinfo", "raw": text, "multiple": col % 2 == 0, "as_bytes": col % 3 != 0})
    return out


def streams(tier):
    n = 300 if tier == "quick" else 5000
    return [
        Stream("fixtures-unmutated", "fixed", 0, 8, _plain_fixtures, True, False, timeout_s=60),
        Stream("grammar-trees", "hyp", n, 16, tree_cases, timeout_s=60),
        Stream("lone-cr-at-every-column", "fixed", 0, 8, _lone_cr_cases, True, False, timeout_s=60),
        Stream("mutated-fixtures", "hyp", n // 2, 16, fixture_cases, timeout_s=60),
    ] + ([Stream("atheris-bytes", "custom", 0, 8, _atheris, timeout_s=60)] if tier == "thorough" else [])


def _atheris(ctx):
    from vlib import fuzz
    fuzz.campaign("checks.c01_parse_roundtrip", ctx, 150, use_corpus=ctx["shard"] % 4 != 3)


LEVEL_TEXT = ("Grammar-generated well-formed texts (ground truth = the abstract tree), every repository fixture, and mutated fixtures are "
              "parsed, serialised and parsed again; stability and denotation are compared structurally. Sampling of an unbounded input "
              "space; the delimiter/escape alphabet is at the centre of the text generator.")
