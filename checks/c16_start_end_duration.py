"""C16 - Start/end/duration of events and todos obey RFC rules after any edit history (model-based)."""
from datetime import date, datetime, timedelta

from hypothesis import strategies as st

from vlib.runner import Failure, Stream, exc_signature
from vlib import sut, values as V

from icalendar import Event, Todo, Journal
from icalendar.cal import InvalidCalendar, IncompleteComponent

ID = "C16"
TECHNIQUE = "model-based testing of edit histories (Hypothesis op sequences of setters / deleters / add on Event, Todo, Journal vs. a three-slot reference model with the RFC 5545 exclusivity and validity rules), invariant after every step"
RULE = ("Hypothesis generates histories of 1-30 operations per component class (Event, Todo; Journal for start only): assignments to "
        "start, end, DTSTART, DTEND/DUE, DURATION (values: date, naive / UTC / zoned date-time incl. wall times next to DST changes, "
        "timedeltas of days / time-of-day / zero / negative, None, and wrong-typed values), del of each, and add() of "
        "dtstart/dtend/due/duration (which can create duplicated and wrong-typed properties, as parsing arbitrary property "
        "combinations does); both providers. Reference model: three optional slots + exclusivity rule. After every step: "
        "presence and stored values equal the model; setter-only histories never hold both the end property and DURATION; "
        "start/end/duration return the RFC value (end = DTEND/DUE | start + DURATION | start + 1 day for a date | start) or raise "
        "exactly the documented error the model predicts (InvalidCalendar for forbidden states, IncompleteComponent for missing "
        "information); end - start == duration; setters reject wrong types with TypeError only and leave the state unchanged. "
        "Non-trivial: a member of the exclusive group is set after the other member; distinct by hash.")
ASSUMPTIONS = ["a floating/zoned mix of start and end is a forbidden state (RFC 5545 3.8.2.2: same form as DTSTART); duration must report it as InvalidCalendar",
               "when several problems coexist either documented error is accepted"]
REQUIRED_CLASSES = ["exclusive-overwrite", "kind:Event", "kind:Todo", "kind:Journal", "has-add", "setter-wrong-type", "date-start", "zoned-value"]

KINDS = {"Event": (Event, "DTEND"), "Todo": (Todo, "DUE"), "Journal": (Journal, None)}


class Mismatch(Exception):
    def __init__(self, clause, sig, detail):
        self.clause, self.sig, self.detail = clause, sig, detail


def slot_value(slot, want_types):
    """model getter for DTSTART / DTEND / DUE / DURATION: ('none',) | ('val', x) | ('invalid',)"""
    if slot is None:
        return ("none",)
    if slot[0] == "multi":
        return ("invalid",)
    v = slot[1]
    if not isinstance(v, want_types):
        return ("invalid",)
    return ("val", v)


def is_d(x):
    return isinstance(x, date) and not isinstance(x, datetime)


def expect(model, which):
    """-> set of acceptable outcomes: ('val', x) | ('err', name)"""
    S = slot_value(model["S"], (date, datetime))
    E = slot_value(model["E"], (date, datetime))
    D = slot_value(model["D"], (timedelta,))
    INV, INC = ("err", "InvalidCalendar"), ("err", "IncompleteComponent")
    if which == "journal-start":
        if S[0] == "invalid":
            return {INV}
        if S[0] == "none":
            return {INC}
        return {S}
    any_invalid = "invalid" in (S[0], E[0], D[0])
    forbidden = set()
    if E[0] == "val" and D[0] == "val":
        forbidden.add("both")
    if S[0] == "val" and E[0] == "val" and is_d(S[1]) != is_d(E[1]):
        forbidden.add("mismatch")
    if S[0] == "val" and is_d(S[1]) and D[0] == "val" and D[1].seconds != 0:
        forbidden.add("time-duration-on-date")
    bad = any_invalid or bool(forbidden)
    if which == "start":
        if S[0] == "invalid":
            return {INV}
        if S[0] == "none":
            return {INC, INV} if bad else {INC}
        return {S, INV} if bad else {S}
    # end
    def end_outcomes():
        if E[0] == "invalid" or D[0] == "invalid":
            return {INV}
        if forbidden:
            # the forbidden combination must be reported; a missing start may be reported instead
            return {INV, INC} if S[0] == "none" else {INV}
        if E[0] == "val":
            return {E, INV} if S[0] == "invalid" else {E}
        if S[0] == "invalid":
            return {INV}
        if D[0] == "val":
            if S[0] == "none":
                return {INC}
            return {("val", S[1] + D[1])}
        if S[0] == "none":
            return {INC}
        return {("val", S[1] + timedelta(days=1))} if is_d(S[1]) else {S}
    if which == "end":
        return end_outcomes()
    # duration = end - start
    so, eo = expect(model, "start"), end_outcomes()
    out = set()
    for s in so:
        for e in eo:
            if s[0] == "err":
                out.add(s)
            elif e[0] == "err":
                out.add(e)
            else:
                a, b = s[1], e[1]
                if isinstance(a, datetime) and isinstance(b, datetime) and (a.tzinfo is None) != (b.tzinfo is None):
                    out.add(INV)      # floating / zoned mix
                elif is_d(a) != is_d(b):
                    out.add(INV)
                else:
                    out.add(("val", b - a))
    return out


def observe(fn):
    try:
        return ("val", fn())
    except InvalidCalendar:
        return ("err", "InvalidCalendar")
    except IncompleteComponent:
        return ("err", "IncompleteComponent")
    except Exception as e:
        return ("err", type(e).__name__)


def same(a, b):
    if a[0] != b[0]:
        return False
    if a[0] == "err":
        return a[1] == b[1]
    x, y = a[1], b[1]
    if type(x) is not type(y) and not (isinstance(x, datetime) and isinstance(y, datetime)):
        return False
    if isinstance(x, datetime):
        if (x.tzinfo is None) != (y.tzinfo is None):
            return False
        if x.tzinfo is None:
            return x == y
        # same wall clock, same offset and same instant (== between values of one zone ignores fold; the conversion does not)
        from datetime import timezone as _tz
        return x.replace(tzinfo=None) == y.replace(tzinfo=None) and x.utcoffset() == y.utcoffset() and x.astimezone(_tz.utc) == y.astimezone(_tz.utc)
    return x == y


def judge(case):
    provider = case.get("provider", "zoneinfo")
    sut.reset(provider)
    try:
        _run(case, provider)
    except Mismatch as m:
        return [Failure(m.clause, m.sig, m.detail[:500])]
    except Exception as e:
        return [Failure("C16.harness-or-raises", "raises/" + exc_signature(e), repr(e)[:300])]
    return []


def _run(case, provider):
    cls, endname = KINDS[case["kind"]]
    c = cls()
    model = {"S": None, "E": None, "D": None}
    names = {"DTSTART": "S", "start": "S", "DURATION": "D"}
    if endname:
        names[endname] = "E"
        names["end"] = "E"
    else:
        names["end"] = "S"     # Journal.end is an alias of start
    adds = False
    for n, op in enumerate(case["ops"]):
        kind = op[0]
        if kind == "set":
            attr, jv = op[1], op[2]
            if attr == "ENDPROP":
                attr = endname
            if attr not in names or (cls is Journal and attr == "DURATION"):
                continue
            slot = names[attr]
            val = V.dec(jv, provider)
            ok_types = (timedelta,) if slot == "D" else (date, datetime)
            r = observe(lambda: setattr(c, attr, val))
            if val is None:
                if r[0] == "err":
                    raise Mismatch("C16.setters", "set-none-raises", f"step {n} {op!r}: {r!r}")
                model[slot] = None
            elif not isinstance(val, ok_types):
                if r != ("err", "TypeError"):
                    raise Mismatch("C16.setters", "wrong-type-not-TypeError", f"step {n} {op!r}: {r!r}")
            else:
                if r[0] == "err":
                    raise Mismatch("C16.setters", "valid-set-raises", f"step {n} {op!r}: {r!r}")
                model[slot] = ("val", val)
                if slot == "E":
                    model["D"] = None
                elif slot == "D":
                    model["E"] = None
        elif kind == "del":
            attr = endname if op[1] == "ENDPROP" else op[1]
            if attr is None or attr not in names or (cls is Journal and attr == "DURATION"):
                continue
            r = observe(lambda: delattr(c, attr))
            if r[0] == "err":
                raise Mismatch("C16.setters", "del-raises", f"step {n} {op!r}: {r!r}")
            model[names[attr]] = None
        elif kind == "add":
            pname = endname if op[1] == "ENDPROP" else op[1]
            if pname is None or (cls is Journal and pname != "DTSTART"):
                continue
            val = V.dec(op[2], provider)
            c.add(pname.lower(), val)
            adds = True
            slot = names[pname]
            cur = model[slot]
            if cur is None:
                model[slot] = ("val", val)
            elif cur[0] == "val":
                model[slot] = ("multi", [cur[1], val])
            else:
                model[slot] = ("multi", cur[1] + [val])
        else:
            raise ValueError(kind)
        _check(c, cls, endname, model, adds, n, op)


def _check(c, cls, endname, model, adds, n, op):
    where = f"after step {n} {op!r}"
    pres = {"S": "DTSTART" in c, "D": "DURATION" in c}
    if endname:
        pres["E"] = endname in c
    for slot, p in pres.items():
        if p != (model[slot] is not None):
            raise Mismatch("C16.exclusivity" if slot in "ED" else "C16.stored", f"presence-differs/{slot}",
                           f"{where}: present={p} model={model[slot]!r}")
    if endname and not adds and pres["E"] and pres["D"]:
        raise Mismatch("C16.exclusivity", "end-and-duration-both-present", where)
    # upper-case property getters
    for attr, slot, types in (("DTSTART", "S", (date, datetime)), (endname, "E", (date, datetime)), ("DURATION", "D", (timedelta,))):
        if attr is None or (cls is Journal and attr == "DURATION"):
            continue
        want = slot_value(model[slot], types)
        got = observe(lambda: getattr(c, attr))
        if want[0] == "none":
            ok = got == ("val", None)
        elif want[0] == "invalid":
            ok = got == ("err", "InvalidCalendar")
        else:
            ok = same(got, want)
        if not ok:
            raise Mismatch("C16.stored", f"property-getter-differs/{'END' if slot == 'E' else attr}", f"{where}: got={got!r} model={want!r}")
    if cls is Journal:
        got = observe(lambda: c.start)
        exp = expect(model, "journal-start")
        if not any(same(got, e) for e in exp):
            raise Mismatch("C16.derived", "journal-start-differs", f"{where}: got={got!r} expected one of {exp!r}")
        got = observe(lambda: c.duration)
        if got != ("val", timedelta(0)):
            raise Mismatch("C16.derived", "journal-duration-differs", f"{where}: {got!r}")
        return
    res = {}
    for which in ("start", "end", "duration"):
        got = observe(lambda: getattr(c, which))
        res[which] = got
        exp = expect(model, which)
        if not any(same(got, e) for e in exp):
            kind = "undocumented-error" if got[0] == "err" and got[1] not in ("InvalidCalendar", "IncompleteComponent") else "differs"
            raise Mismatch("C16.errors" if kind == "undocumented-error" or got[0] == "err" or all(e[0] == "err" for e in exp) else "C16.derived",
                           f"{which}-{kind}" + (f"/{got[1]}" if kind == "undocumented-error" else ""),
                           f"{where}: got={got!r} expected one of {sorted(map(repr, exp))!r} model={model!r}")
    if all(r[0] == "val" for r in res.values()):
        s, e, d = res["start"][1], res["end"][1], res["duration"][1]
        if e - s != d:
            raise Mismatch("C16.derived", "end-minus-start-not-duration", f"{where}: {s!r} {e!r} {d!r}")


def info(case):
    classes = ["kind:" + case["kind"]]
    last = None
    excl = False
    for op in case["ops"]:
        if op[0] == "add":
            classes.append("has-add")
        if op[0] in ("set", "add") and len(op) > 2:
            k = op[2]["k"]
            if k == "date" and op[1] in ("start", "DTSTART"):
                classes.append("date-start")
            if k == "zoned":
                classes.append("zoned-value")
            grp = "E" if op[1] in ("end", "ENDPROP") and k in ("date", "naive", "utc", "zoned") else ("D" if op[1] == "DURATION" and k == "td" else None)
            if op[0] == "set":
                if (op[1] == "DURATION") != (k == "td") and k != "none":
                    classes.append("setter-wrong-type")
                if grp and last and grp != last:
                    excl = True
                if grp:
                    last = grp
    if excl:
        classes.append("exclusive-overwrite")
    return {"nontrivial": excl, "classes": sorted(set(classes))}


REGIONS = {}

# ----------------------------------------------------------------------------- strategies
# values of subclasses of date / datetime (pendulum, freezegun and friends supply such objects) behave like their base type
_sub = st.one_of(V.s_date, V.s_naive).map(lambda x: dict(x, sub=True))
_val = st.one_of(V.s_date, V.s_naive, V.s_utc, V.s_zoned, V.s_zoned_dst, V.s_td, V.s_td, st.just({"k": "none"}), _sub)
_good_start = st.one_of(V.s_date, V.s_naive, V.s_utc, V.s_zoned, V.s_zoned_dst, _sub, V.s_zoned_dst.map(lambda x: dict(x, fold=1)))
_setattr = st.sampled_from(["start", "end", "DTSTART", "ENDPROP", "DURATION"])


@st.composite
def _op(draw, allow_add):
    kind = draw(st.sampled_from(["set"] * 6 + ["del"] + (["add"] * 2 if allow_add else [])))
    if kind == "set":
        attr = draw(_setattr)
        if draw(st.integers(0, 5)) > 0:   # mostly well-typed
            v = draw(V.s_td) if attr == "DURATION" else draw(_good_start)
        else:
            v = draw(_val)
        return ["set", attr, v]
    if kind == "del":
        return ["del", draw(st.sampled_from(["DTSTART", "ENDPROP", "DURATION"]))]
    return ["add", draw(st.sampled_from(["DTSTART", "ENDPROP", "DURATION"])), draw(st.one_of(_good_start, V.s_td))]


def _hyp(maxops, allow_add):
    return lambda: st.fixed_dictionaries({
        "kind": st.sampled_from(["Event", "Event", "Todo", "Todo", "Journal"]),
        "provider": st.sampled_from(["zoneinfo", "pytz"]),
        "ops": st.lists(_op(allow_add), min_size=1, max_size=maxops),
    })


def streams(tier):
    n = 3000 if tier == "quick" else 25000
    return [
        Stream("setter-histories", "hyp", n, 8, _hyp(30 if tier == "quick" else 50, False)),
        Stream("histories-with-add", "hyp", n, 8, _hyp(12, True)),
    ]


LEVEL_TEXT = ("Random edit histories are replayed against a small reference model of the RFC rules and every intermediate state is "
              "checked (stored values, exclusivity, derived start/end/duration or the predicted documented error). History length "
              "and value pools are bounded; parsing of arbitrary property combinations is represented by add().")
