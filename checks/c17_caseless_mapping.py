"""C17 - Components and parameter maps are dicts keyed by upper-cased names (model-based, operation histories)."""
from hypothesis import strategies as st

from vlib.runner import Failure, Stream, exc_signature

from icalendar.caselessdict import CaselessDict
from icalendar.parser import Parameters
from icalendar.cal import Component, Event, Calendar, Todo, Timezone

ID = "C17"
TECHNIQUE = "model-based testing of operation histories (Hypothesis-generated op sequences vs. a reference dict keyed by upper-cased names), invariant after every step"
RULE = ("Hypothesis generates histories (construction from mapping / pairs / keywords, then 1-40 operations out of "
        "[] get/set/del, in, get, pop, setdefault, update (mapping, pairs, kwargs), copy, |, |=, ==, keys, sorted_keys, "
        "popitem, has_key) over a 16-key pool that contains case variants of the same names as str and bytes, for "
        "CaselessDict, Parameters, Component, Event, Todo, Calendar, Timezone and harness-defined subclasses with their own / reassigned canonical_order (parents sorted first), including the reflected merge dict | d; plus an exhaustive sweep of all "
        "constructions from 1-3 pairs over a 6-key pool. After every step the real object is compared with a reference "
        "dict keyed by key.upper() (documented signatures: pop/get/setdefault default None): return values, exception "
        "types, stored keys upper-case, key order = first insertion, equality with plain dicts of any key case (both "
        "operand orders), copy independence, sorted_keys against an own reference. Non-trivial: the history touches "
        "one name through >= 2 spellings; distinct by hash.")
RULE += " Rounds 7-8: names with characters between 'Z' and 'a'; update() from a mapping by protocol; results of | are independent objects."
ASSUMPTIONS = ["keys are str or UTF-8 bytes (the documented key types)", "values are opaque (ints/strs)"]
REQUIRED_CLASSES = ["two-spellings", "bytes-key", "ctor:mapping", "ctor:pairs", "ctor:kwargs", "op:ior", "op:or", "op:ror", "op:eq", "kind:SubEvent", "kind:Dynamic"]

class SubEvent(Event):
    """user subclass with its own priority names (declared after the parent has possibly been sorted)"""
    canonical_order = ("UID", "X-A", "DTSTART")


class SubCaseless(CaselessDict):
    canonical_order = ("B", "A")


class SubSub(SubCaseless):
    canonical_order = ("SUMMARY",)


KINDS = {"SubEvent": SubEvent, "SubCaseless": SubCaseless, "SubSub": SubSub, "Dynamic": None, "CaselessDict": CaselessDict, "Parameters": Parameters, "Component": Component, "Event": Event,
         "Todo": Todo, "Calendar": Calendar, "Timezone": Timezone}
POOL = ["a", "A", "b", "B", "summary", "Summary", "SUMMARY", "x-a", "X-A", "x-A", "dtstart", "DTSTART", "uid", "Version",
        "prodid", "tzid",
        # names whose order depends on how they are compared: characters between 'Z' and 'a' in code point order ([ \\ ] ^ _ `)
        "x_b", "X_B", "xa", "XA", "X-MS_OLK", "x-msa", "x^y", "X`Z", "x[1]", "XY",
        "x-größe", "X-GRÖSSE", "ünï", "ÜNÏ"]
KWPOOL = ["a", "A", "b", "summary", "Summary", "SUMMARY", "uid", "Version", "prodid", "tzid", "dtstart"]


class _Duck:
    def __init__(self, d):
        self._d = d

    def keys(self):
        return list(self._d.keys())

    def items(self):
        return list(self._d.items())

    def __getitem__(self, k):
        return self._d[k]


def dk(k):
    """decode a JSON key spec: 's:abc' -> 'abc', 'b:abc' -> b'abc'"""
    return k[2:].encode("utf-8") if k.startswith("b:") else k[2:]


def up(k):
    k = dk(k)
    if isinstance(k, bytes):
        k = k.decode("utf-8")
    return k.upper()


def ref_sorted_keys(keys, canonical):
    canonical = list(canonical or [])
    head = [k for k in canonical if k in keys]
    tail = sorted(k for k in keys if k not in canonical)
    return head + tail


class Mismatch(Exception):
    def __init__(self, sig, detail):
        self.sig, self.detail = sig, detail


def call(fn):
    try:
        return ("ok", fn())
    except Exception as e:  # compare exception *types*
        return ("exc", type(e).__name__)


SOFT = []      # mismatches after which the history can go on (filled by _run, emptied by judge)


def judge(case):
    del SOFT[:]
    out = []
    try:
        _run(case)
    except Mismatch as m:
        out = [Failure("C17." + m.sig.split("/")[0], m.sig, m.detail[:400])]
    except Exception as e:
        out = [Failure("C17.raises", "raises/" + exc_signature(e), repr(e)[:300])]
    return SOFT[:2] + out


def _build(cls, ctor):
    how, data = ctor
    if how == "empty":
        return cls(), {}
    if how == "mapping":
        src = {dk(k): v for k, v in data}
        model = {}
        for k, v in data:
            model[up(k)] = v   # a plain dict keeps the last value of a duplicate *identical* key; distinct spellings update in order
        # order: first insertion of the upper-cased name, value: last one written
        return cls(src), _ordered(data)
    if how == "pairs":
        return cls([(dk(k), v) for k, v in data]), _ordered(data)
    if how == "kwargs":
        return cls(**{k[2:]: v for k, v in data}), _ordered(data)
    raise ValueError(how)


def _ordered(data):
    model = {}
    for k, v in data:
        model[up(k)] = v
    return model


def _check_state(real, model, step):
    keys = list(real.keys())
    if any(not isinstance(k, str) or k != k.upper() for k in keys):
        raise Mismatch("stored-keys/not-upper", f"step {step}: keys={keys!r}")
    if sorted(keys) != sorted(model.keys()) or len(real) != len(model):
        raise Mismatch("content/keys-differ", f"step {step}: real={keys!r} model={list(model)!r}")
    if keys != list(model.keys()):
        raise Mismatch("order/not-first-insertion", f"step {step}: real={keys!r} model={list(model)!r}")
    if list(real.items()) != list(model.items()) or list(real.values()) != list(model.values()):
        raise Mismatch("content/values-differ", f"step {step}: real={list(real.items())!r} model={list(model.items())!r}")
    if list(iter(real)) != keys:
        raise Mismatch("content/iter-differs", f"step {step}")


def _run(case):
    cls = KINDS[case["kind"]]
    if cls is None:   # a fresh subclass per case whose canonical_order may be reassigned by the history
        cls = type("Dynamic", (CaselessDict,), {"canonical_order": ("A", "SUMMARY")})
    rctor = call(lambda: _build(cls, case["ctor"]))
    if rctor[0] == "exc":
        raise Mismatch("construct/raises", f"{case['ctor']!r}: {rctor[1]}")
    real, model = rctor[1]
    _check_state(real, model, "ctor")
    for n, op in enumerate(case["ops"]):
        name, args = op[0], op[1:]
        if name == "set":
            k, v = args
            real[dk(k)] = v
            model[up(k)] = v
        elif name == "get":
            (k,) = args
            _same(call(lambda: real[dk(k)]), call(lambda: model[up(k)]), "getitem", n, op)
        elif name == "del":
            (k,) = args

            def d_real():
                del real[dk(k)]

            def d_model():
                del model[up(k)]
            _same(call(d_real), call(d_model), "delitem", n, op)
        elif name == "in":
            (k,) = args
            _same(call(lambda: dk(k) in real), ("ok", up(k) in model), "contains", n, op)
        elif name == "has_key":
            (k,) = args
            _same(call(lambda: real.has_key(dk(k))), ("ok", up(k) in model), "has_key", n, op)
        elif name == "getd":
            k, d = args
            r = call(lambda: real.get(dk(k)) if d is None else real.get(dk(k), d))
            _same(r, ("ok", model.get(up(k), d)), "get", n, op)
        elif name == "pop":
            k, d = args
            r = call(lambda: real.pop(dk(k)) if d is None else real.pop(dk(k), d))
            if d is None and up(k) not in model:
                # a dictionary raises KeyError here (RC-AS: the library answers None); the history goes on either way
                if r != ("exc", "KeyError"):
                    SOFT.append(Failure("C17.pop@missing-name-without-default", "pop/missing-name-without-default-does-not-raise", f"step {n} {op!r}: real={r!r}, a dict raises KeyError"))
            else:
                _same(r, ("ok", model.pop(up(k), d)), "pop", n, op)
        elif name == "setdefault":
            k, v = args
            r = call(lambda: real.setdefault(dk(k)) if v is None else real.setdefault(dk(k), v))
            _same(r, ("ok", model.setdefault(up(k), v)), "setdefault", n, op)
        elif name == "update_map":
            (data,) = args
            real.update({dk(k): v for k, v in data})
            for k, v in data:
                model[up(k)] = v
        elif name == "update_duck":
            # a mapping by protocol only (keys/items/__getitem__, as email.message.Message or a record class): dict.update takes it
            (data,) = args
            real.update(_Duck({dk(k): v for k, v in data}))
            for k, v in data:
                model[up(k)] = v
        elif name == "update_pairs":
            (data,) = args
            real.update([(dk(k), v) for k, v in data])
            for k, v in data:
                model[up(k)] = v
        elif name == "update_kw":
            (data,) = args
            real.update(**{k[2:]: v for k, v in data})
            for k, v in data:
                model[up(k)] = v
        elif name == "update_map_kw":
            data, kw = args
            real.update({dk(k): v for k, v in data}, **{k[2:]: v for k, v in kw})
            for k, v in list(data) + list(kw):
                model[up(k)] = v
        elif name == "copy":
            c = real.copy()
            if type(c) is not type(real):
                raise Mismatch("copy/type", f"step {n}: {type(c).__name__}")
            _check_state(c, dict(model), f"{n}(copy)")
            c["ZZ-COPY-PROBE"] = 1
            if "ZZ-COPY-PROBE" in real:
                raise Mismatch("copy/not-independent", f"step {n}")
            for k in list(c.keys()):
                del c[k]
            _check_state(real, model, f"{n}(after mutating the copy)")
        elif name == "or":
            (data,) = args
            other = {dk(k): v for k, v in data}
            r = call(lambda: real | other)
            m2 = dict(model)
            for k, v in data:
                m2[up(k)] = v
            if r[0] == "exc":
                raise Mismatch("or/raises", f"step {n}: {r[1]}")
            _check_state(r[1], m2, f"{n}(|)")
            _check_state(real, model, f"{n}(| left operand changed)")
            # the result is a new mapping (also when the right operand is empty): editing it leaves both operands alone
            if r[1] is real:
                raise Mismatch("or/result-is-the-left-operand", f"step {n}: d | {other!r} is d")
            r[1]["ZZ-OR-PROBE"] = 1
            if "ZZ-OR-PROBE" in real or "ZZ-OR-PROBE" in other:
                raise Mismatch("or/result-not-independent", f"step {n}")
        elif name == "ior":
            (data,) = args
            other = {dk(k): v for k, v in data}
            before = real
            real |= other
            if real is not before:
                raise Mismatch("ior/rebinds", f"step {n}")
            for k, v in data:
                model[up(k)] = v
        elif name == "eq":
            (variant,) = args
            # a plain mapping with the same upper-cased content, keys spelled per `variant`
            def spell(k):
                return {"upper": k, "lower": k.lower(), "title": k.title()}[variant]
            other = {spell(k): v for k, v in model.items()}
            plain_ok = not isinstance(real, Component)   # C20 defines component == non-component as False
            if len(other) == len(model) and not plain_ok:
                same = type(real)(other)
                if call(lambda: real == same) != ("ok", True) or call(lambda: same == real) != ("ok", True):
                    raise Mismatch("eq/same-class", f"step {n}: {other!r}")
                if other:
                    ch = type(real)(other)
                    ch[next(iter(other))] = "changed-value"
                    if call(lambda: real == ch) != ("ok", False):
                        raise Mismatch("eq/different-value-equal", f"step {n}")
            if len(other) == len(model) and plain_ok:
                r = call(lambda: real == other)
                if r != ("ok", True):
                    raise Mismatch(f"eq/plain-dict-{variant}-keys", f"step {n}: d == {other!r} -> {r!r}; d={dict(real)!r}")
                r2 = call(lambda: real != other)
                if r2 != ("ok", False):
                    raise Mismatch(f"eq/ne-plain-dict-{variant}-keys", f"step {n}: {r2!r}")
                r3 = call(lambda: other == real)
                if r3 != ("ok", True):
                    raise Mismatch(f"eq/reflected-plain-dict-{variant}-keys", f"step {n}: {other!r} == d -> {r3!r}")
                same = type(real)(other)
                if call(lambda: real == same) != ("ok", True) or call(lambda: same == real) != ("ok", True):
                    raise Mismatch("eq/same-class", f"step {n}")
                if other:
                    # the same content spelled redundantly: one name in two letter cases with one value (more keys, same content)
                    k0 = next(iter(other))
                    alt = next((a for a in (k0.upper(), k0.lower(), k0.title(), k0.swapcase()) if a != k0), None)
                    if alt is not None:
                        red = dict(other)
                        red[alt] = other[k0]
                        if call(lambda: real == red) != ("ok", True) or call(lambda: red == real) != ("ok", True) or call(lambda: real != red) != ("ok", False):
                            raise Mismatch("eq/plain-dict-with-redundant-case-variants", f"step {n}: d == {red!r} is not True; d={dict(real)!r}")
                diff = dict(other)
                diff[spell("ZZ-EXTRA")] = 0
                if call(lambda: real == diff) != ("ok", False):
                    raise Mismatch("eq/different-content-equal", f"step {n}: {diff!r}")
                if other:
                    k0 = next(iter(other))
                    ch = dict(other)
                    ch[k0] = "changed-value"
                    if call(lambda: real == ch) != ("ok", False):
                        raise Mismatch("eq/different-value-equal", f"step {n}: {ch!r}")
        elif name == "set_canonical_order":
            (order,) = args
            if type(real).__name__ == "Dynamic":
                type(real).canonical_order = tuple(order)
        elif name == "ror":
            (data,) = args
            other = {dk(k): v for k, v in data}
            r = call(lambda: other | real)
            m2 = {}
            for k, v in data:
                m2[up(k)] = v
            m2.update(model)
            if r[0] == "exc":
                raise Mismatch("or/reflected-raises", f"step {n}: {r[1]}")
            if not isinstance(r[1], CaselessDict):
                raise Mismatch("or/reflected-type", f"step {n}: {type(r[1]).__name__}")
            _check_state(r[1], m2, f"{n}(dict | d)")
            _check_state(real, model, f"{n}(dict | d changed the right operand)")
            if r[1] is real:
                raise Mismatch("or/reflected-result-is-the-operand", f"step {n}")
            r[1]["ZZ-OR-PROBE"] = 1
            if "ZZ-OR-PROBE" in real:
                raise Mismatch("or/reflected-result-not-independent", f"step {n}")
        elif name == "sorted_keys":
            # parents first: an ordering cached per class must not leak into subclasses
            for base in type(real).__mro__[1:]:
                if isinstance(base, type) and issubclass(base, CaselessDict) and base is not CaselessDict:
                    try:
                        base(model).sorted_keys()
                    except Exception:
                        pass
            want = ref_sorted_keys(list(model.keys()), type(real).canonical_order)
            r = call(lambda: list(real.sorted_keys()))
            if r != ("ok", want):
                raise Mismatch("sorted_keys/differs", f"step {n}: {r!r} want {want!r}")
            r = call(lambda: list(real.sorted_items()))
            if r != ("ok", [(k, model[k]) for k in want]):
                raise Mismatch("sorted_keys/items-differ", f"step {n}: {r!r}")
        elif name == "popitem":
            def pm():
                k = next(reversed(model))
                return (k, model.pop(k))
            rm = call(pm) if model else ("exc", "KeyError")
            _same(call(lambda: real.popitem()), rm, "popitem", n, op)
        elif name == "clear":
            real.clear()
            model.clear()
        else:
            raise ValueError(name)
        _check_state(real, model, n)


def _same(r, m, what, n, op):
    if r != m:
        raise Mismatch(f"{what}/result-differs", f"step {n} {op!r}: real={r!r} model={m!r}")


def info(case):
    classes = ["ctor:" + case["ctor"][0], "kind:" + case["kind"]]
    names = {}
    allkeys = []

    def visit(k):
        allkeys.append(k)
        names.setdefault(up(k), set()).add(k)
    if case["ctor"][0] != "empty":
        for k, v in case["ctor"][1]:
            visit(k)
    for op in case["ops"]:
        classes.append("op:" + op[0])
        for a in op[1:]:
            if isinstance(a, str) and a[:2] in ("s:", "b:"):
                visit(a)
            elif isinstance(a, list):
                for kv in a:
                    if isinstance(kv, list) and kv and isinstance(kv[0], str) and kv[0][:2] in ("s:", "b:"):
                        visit(kv[0])
    two = any(len(v) >= 2 for v in names.values())
    if two:
        classes.append("two-spellings")
    if any(k.startswith("b:") for k in allkeys):
        classes.append("bytes-key")
    return {"nontrivial": two, "classes": sorted(set(classes))}


def region_pop_missing(case):
    """RC-AS: histories that contain a pop() without a default (whether the name is present then is decided by the history)"""
    return any(op[0] == "pop" and op[2] is None for op in case["ops"])


REGIONS = {"pop-without-default": region_pop_missing}

# ----------------------------------------------------------------------------- strategies

key = st.one_of(st.sampled_from(POOL).map(lambda k: "s:" + k), st.sampled_from(POOL[:8] + POOL[-4:]).map(lambda k: "b:" + k))
kwkey = st.sampled_from(KWPOOL).map(lambda k: "s:" + k)
val = st.one_of(st.integers(0, 9), st.sampled_from(["v", "Value", "x;y"]))
pairs = st.lists(st.tuples(key, val).map(list), max_size=5)
upairs = st.lists(st.tuples(key, val).map(list), max_size=5, unique_by=lambda kv: kv[0])   # mapping: identical keys impossible
kwpairs = st.lists(st.tuples(kwkey, val).map(list), max_size=4, unique_by=lambda kv: kv[0])

op = st.one_of(
    st.tuples(st.just("set"), key, val), st.tuples(st.just("get"), key), st.tuples(st.just("del"), key),
    st.tuples(st.just("in"), key), st.tuples(st.just("has_key"), key),
    st.tuples(st.just("getd"), key, st.one_of(st.none(), val)), st.tuples(st.just("pop"), key, st.one_of(st.none(), val)),
    st.tuples(st.just("setdefault"), key, st.one_of(st.none(), val)),
    st.tuples(st.just("update_map"), upairs), st.tuples(st.just("update_pairs"), pairs), st.tuples(st.just("update_kw"), kwpairs),
    st.tuples(st.just("update_map_kw"), upairs, kwpairs), st.tuples(st.just("update_duck"), upairs),
    st.tuples(st.just("copy")), st.tuples(st.just("or"), upairs), st.tuples(st.just("or"), st.just([])), st.tuples(st.just("ior"), upairs), st.tuples(st.just("ror"), upairs), st.tuples(st.just("ror"), st.just([])),
    st.tuples(st.just("set_canonical_order"), st.lists(st.sampled_from(["A", "B", "SUMMARY", "UID", "X-A"]), max_size=3, unique=True)),
    st.tuples(st.just("sorted_keys")),
    st.tuples(st.just("eq"), st.sampled_from(["upper", "lower", "title"])), st.tuples(st.just("sorted_keys")),
    st.tuples(st.just("popitem")), st.tuples(st.just("clear")),
).map(list)

ctor = st.one_of(st.just(["empty", []]), st.tuples(st.just("mapping"), upairs).map(list),
                 st.tuples(st.just("pairs"), pairs).map(list), st.tuples(st.just("kwargs"), kwpairs).map(list))


def _hyp(maxops):
    return lambda: st.fixed_dictionaries({"kind": st.sampled_from(sorted(KINDS)), "ctor": ctor,
                                          "ops": st.lists(op, min_size=1, max_size=maxops)})


SMALL = ["s:a", "s:A", "s:b", "s:B", "b:a", "s:dtstart"]


def _ctor_sweep(i):
    # all constructions from 1..3 pairs over a 6-key pool x {mapping(if keys unique), pairs} x 2 classes
    kinds = ["CaselessDict", "Event"]
    ki, i = i % 2, i // 2
    how, i = ("pairs", "mapping")[i % 2], i // 2
    n = 1
    span = 6
    while i >= span:
        i -= span
        n += 1
        span = 6 ** n
    ks = []
    for _ in range(n):
        i, r = divmod(i, 6)
        ks.append(SMALL[r])
    data = [[k, j] for j, k in enumerate(ks)]
    if how == "mapping" and len(set(ks)) != len(ks):
        how = "pairs"
    return {"kind": kinds[ki], "ctor": [how, data], "ops": [["eq", "lower"], ["sorted_keys"], ["copy"]]}


def streams(tier):
    n = 3000 if tier == "quick" else 40000
    return [
        Stream("ctor-sweep", "enum", 2 * 2 * (6 + 36 + 216), 2, _ctor_sweep, True, False),
        Stream("histories-short", "hyp", n, 8, _hyp(12)),
        Stream("histories-long", "hyp", n // 2, 8, _hyp(40 if tier == "quick" else 120)),
    ]


LEVEL_TEXT = ("Random and exhaustive-small operation histories are replayed against a reference dict with the documented "
              "signatures; every intermediate state and every return value / exception type is compared. Bounded history "
              "length and key pool; no absence claim beyond that.")
