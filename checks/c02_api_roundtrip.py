"""C02 - A calendar built through the API survives serialise and parse intact."""
from datetime import date, datetime, timedelta, timezone

from hypothesis import strategies as st

from vlib.runner import Failure, Stream, exc_signature
from vlib import sut, trees as T, values as V
from vlib.model.lineparse import parse_line, unfold, LineSyntaxError

from icalendar import Component
from icalendar.timezone import tzp

ID = "C02"
TECHNIQUE = "Hypothesis-generated API programs (add / setters / add_component over all RFC 5545 property names and value kinds) + exhaustive name x kind sweep; round-trip oracle against the supplied Python values, RFC property-type table, and independent line parser for VALUE/TZID/Z"
RULE = ("Hypothesis: trees of VCALENDAR/VEVENT/VTODO/VJOURNAL/VFREEBUSY/VTIMEZONE(no TZID)/STANDARD/DAYLIGHT/VALARM/X- components (depth <= 3) "
        "whose properties are drawn per the harness's own RFC 5545 property table (default and alternate value kinds: text, int, date, "
        "floating/UTC/zoned date-time, duration, period, recur, geo, utc-offset, uri, cal-address, categories, date / date-time / "
        "period lists), repeats of multi-valued names, arbitrary extra parameters, plus property setters (DTSTART, DTEND/DUE, DURATION, "
        "DTSTAMP, LAST_MODIFIED, TRIGGER, REPEAT, ACKNOWLEDGED, TZOFFSETFROM/TO); both providers; an exhaustive sweep of every RFC name x "
        "every permitted kind. Oracle: parse(to_ical(tree)) has the same nesting, names, multi-value order, parameters (supplied + "
        "required derived ones) and decoded values equal to the supplied Python values (UTC normalisation for DTSTAMP/CREATED/"
        "LAST-MODIFIED expected; decoded(name) agrees); the parsed value class is the RFC table's; on the emitted text (reference "
        "line parser) a value that is not of the property's default type carries the matching VALUE, zoned values carry TZID == zone "
        "key, UTC values end in Z without TZID. Non-trivial: >= 2 properties of >= 2 kinds and a non-default kind or zoned value or "
        "multi-valued name; distinct by hash.")
RULE += ' Rounds 7-8: to_ical(sorted=False) is parsed and compared too; caller arguments must be unchanged; text/uri/cal-address/integer values are also handed to add() as value objects of the library or of application subclasses carrying their own parameters.'
ASSUMPTIONS = ["texts contain no backslash and no literal %2C/%3A/%3B/%5C (RC-B region is decided in C05/C07/C08)",
               "RESOURCES is single-valued TEXT in this library's data model"]
REQUIRED_CLASSES = ["kind:dates-date", "kind:periods", "kind:zoned", "kind:date", "kind:utc-trigger", "multi-valued", "setter", "nested", "extra-params", "list-valued-add", "tzinfo-without-zone-id"]

EXPECT_CLASS = {"text": "vText", "int": "vInt", "uri": "vUri", "caladdr": "vCalAddress", "datetime": "vDDDTypes", "date": "vDDDTypes",
                "utc": "vDDDTypes", "td": "vDDDTypes", "period": "vPeriod", "recur": "vRecur", "geo": "vGeo", "offset": "vUTCOffset",
                "cats": "vCategory", "dates": "vDDDLists", "dates-date": "vDDDLists", "periods": "vDDDLists", "naive": "vDDDTypes", "zoned": "vDDDTypes", "fixed": "vDDDTypes", "pfixed": "vDDDTypes"}
UTC_FORCED = {"DTSTAMP", "CREATED", "LAST-MODIFIED"}
UTC = timezone.utc
# minutes: offsets for which an IANA zone with that constant offset exists (every whole hour -12..+14 and six others); the library
# finds them through its table of equivalent zones, so a corrupted entry of that table shows as a wrong instant
MATCH = [h * 60 for h in range(-12, 15)] + [330, 525, -570, 270, 390, 570]
_ZONE_CACHE = {}


def named_after_a_zone_of_todays_offset(off_minutes, wall, written_tzid):
    """RC-AX from what is observable: a value whose tzinfo has no zone id was written with the TZID of an IANA zone that has the
    value's offset *today* (the library's rule) but had another offset at the value's own date - or with an unresolvable id
    ("UTC+01:23") because no zone has that offset today.  A TZID whose zone does not even have the offset today is not this
    finding (the table of equivalent zones is wrong) and is reported in full.  All offsets come from the tz database."""
    import zoneinfo
    off = timedelta(minutes=off_minutes)
    today = [datetime(2022, 1, 15), datetime(2022, 7, 15), datetime(2025, 1, 15), datetime(2025, 7, 15)]
    try:
        tz = zoneinfo.ZoneInfo(written_tzid) if written_tzid else None
    except Exception:  # noqa: BLE001
        tz = None
    if tz is None:
        # an unresolvable id: the finding for the offsets the library has no zone for (MATCH lists the ones it has: if one of those
        # stops resolving, the table of equivalent zones lost an entry - reported in full)
        return off_minutes not in MATCH
    naive = datetime(*(list(wall[:6]) + [0] * (6 - len(wall[:6]))))
    try:
        then = (naive - off).replace(tzinfo=UTC).astimezone(tz).utcoffset()
    except (OverflowError, ValueError):
        then = None
    return any(d.replace(tzinfo=tz).utcoffset() == off for d in today) and then != off


NOMATCH = [83, -83, 1, 90, 345]                         # no such zone in the library's table (RC-AX)


def norm_dt(x):
    """comparable form of a python date/datetime/timedelta/tuple"""
    if isinstance(x, datetime):
        off = x.utcoffset()
        zid = getattr(x.tzinfo, "key", None) or getattr(x.tzinfo, "zone", None)
        if off is not None and off == timedelta(0) and zid in (None, "UTC"):
            zid = "UTC"
        return ("dt", x.replace(tzinfo=None), off, zid)
    if isinstance(x, date):
        return ("d", x)
    if isinstance(x, timedelta):
        return ("td", x)
    if isinstance(x, tuple):
        return ("p",) + tuple(norm_dt(i) for i in x)
    return ("?", repr(x))


def expected_value(name, spec, provider):
    """the Python value the round trip must give back (normalised), from the spec alone"""
    k = spec["k"]
    if k in ("text", "uri", "caladdr"):
        return ("s", spec["v"].replace("\r\n", "\n"))
    if k == "int":
        return ("i", spec["v"])
    if k in ("date", "naive", "td"):
        return norm_dt(V.dec(spec, provider))
    if k == "utc":
        d = V.dec(spec, provider)
        return ("dt", d.replace(tzinfo=None), timedelta(0), "UTC")
    if k in ("fixed", "pfixed"):
        # a tzinfo without a zone id (datetime.timezone, pytz.FixedOffset): whatever zone the text names, the value read back is
        # aware and denotes the same instant
        return ("instant", V.dec(spec, provider).astimezone(UTC).replace(tzinfo=None))
    if k == "zoned":
        naive = datetime(*spec["v"])
        if name.upper() in UTC_FORCED:
            loc = V.dec(spec, provider)
            u = loc.astimezone(UTC)
            return ("dt", u.replace(tzinfo=None), timedelta(0), "UTC")
        loc = V.dec(dict(spec, fold=0), provider)      # the offset of that wall time (RFC 5545 3.3.5 reading), from the tz library itself
        return ("dt", naive, loc.utcoffset(), spec["tz"])
    if k == "period":
        s = expected_value(name, spec["start"], provider)
        e = expected_value(name, spec["end"], provider) if "end" in spec else norm_dt(V.dec(spec["dur"], provider))
        return ("p", s, e)
    if k == "recur":
        out = []
        for kk, vv in spec["v"].items():
            vs = vv if isinstance(vv, list) else [vv]
            if kk.upper() == "UNTIL":      # RFC 5545 3.3.10: a DATE stays a DATE, a floating time stays floating, every aware value is written in UTC
                vs = [V.dec(u, provider) for u in vs]
                vs = [u.astimezone(UTC) if isinstance(u, datetime) and u.tzinfo is not None else u for u in vs]
            out.append((kk.upper(), tuple(str(x) for x in vs)))
        return ("r", tuple(sorted(out)))
    if k == "geo":
        return ("g", float(spec["v"][0]), float(spec["v"][1]))
    if k == "offset":
        return ("td", timedelta(seconds=spec["s"]))
    if k == "cats":
        return ("c", tuple(x.replace("\r\n", "\n") for x in spec["v"]))
    if k == "dates":
        return ("l", tuple(expected_value(name, d, provider) for d in spec["v"]))
    if k == "periods":
        return ("l", tuple(expected_value(name, d, provider) for d in spec["v"]))
    raise ValueError(k)


def got_value(v):
    cls = type(v).__name__
    if cls in ("vText", "vUri", "vCalAddress", "vInline"):
        return ("s", str(v))
    if cls == "vInt":
        return ("i", int(v))
    if cls == "vDDDTypes":
        return norm_dt(v.dt)
    if cls == "vPeriod":
        return norm_dt(v.dt)
    if cls == "vRecur":
        return ("r", tuple(sorted((str(k).upper(), tuple(str(x) for x in (vv if isinstance(vv, (list, tuple)) else [vv]))) for k, vv in v.items())))
    if cls == "vGeo":
        return ("g", v.latitude, v.longitude)
    if cls == "vUTCOffset":
        return ("td", v.td)
    if cls == "vCategory":
        return ("c", tuple(str(c) for c in v.cats))
    if cls == "vDDDLists":
        return ("l", tuple(norm_dt(d.dt) for d in v.dts))
    return ("?", cls, repr(v))


def spec_kind(name, spec):
    """value kind in RFC terms for the VALUE parameter: DATE / DATE-TIME / PERIOD / DURATION / ..."""
    k = spec["k"]
    if k == "date":
        return "DATE"
    if k in ("naive", "utc", "zoned", "fixed", "pfixed"):
        return "DATE-TIME"
    if k == "td":
        return "DURATION"
    if k == "period":
        return "PERIOD"
    if k in ("dates", "periods"):
        return spec_kind(name, spec["v"][0])
    return None


DEFAULT_VALUE = {"DTSTART": "DATE-TIME", "DTEND": "DATE-TIME", "DUE": "DATE-TIME", "RECURRENCE-ID": "DATE-TIME", "RDATE": "DATE-TIME", "EXDATE": "DATE-TIME",
                 "TRIGGER": "DURATION", "FREEBUSY": "PERIOD", "COMPLETED": "DATE-TIME", "CREATED": "DATE-TIME", "DTSTAMP": "DATE-TIME",
                 "LAST-MODIFIED": "DATE-TIME", "DURATION": "DURATION", "ACKNOWLEDGED": "DATE-TIME"}


def zone_of(name, spec):
    k = spec["k"]
    if name.upper() in UTC_FORCED:
        return "UTC" if k in ("utc", "zoned") else None
    if k == "zoned":
        return spec["tz"]
    if k == "utc":
        return "UTC"
    if k == "period":
        return zone_of(name, spec["start"])
    if k in ("dates", "periods"):
        return zone_of(name, spec["v"][0])
    return None


def apply_setters(comps, setters, provider):
    """-> {node index: [(NAME, spec)]} effective extra properties"""
    extra = {}
    for node, attr, spec in setters:
        c = comps[node]
        setattr(c, attr, T.dec_value(spec, provider))
        pname = {"LAST_MODIFIED": "LAST-MODIFIED", "start": "DTSTART", "end": "DTEND" if c.name == "VEVENT" else "DUE"}.get(attr, attr)
        if pname in ("DTSTAMP", "LAST-MODIFIED", "ACKNOWLEDGED") and spec["k"] == "zoned":
            naive = datetime(*spec["v"])
            u = V.dec(spec, provider).astimezone(UTC)
            spec = {"k": "utc", "v": [u.year, u.month, u.day, u.hour, u.minute, u.second]}
        elif pname in ("DTSTAMP", "LAST-MODIFIED", "ACKNOWLEDGED") and spec["k"] == "naive":
            spec = {"k": "utc", "v": spec["v"]}
        extra.setdefault(node, []).append((pname, spec))
    return extra


def judge(case):
    provider = case.get("provider", "zoneinfo")
    sut.reset(provider)
    fails = []
    tree = case["tree"]
    del T.ARG_MUTATIONS[:]
    try:
        pre = []
        root = T.build(tree, provider, into=pre)
        extra = apply_setters(pre, case.get("setters", []), provider)
        raw = root.to_ical()
    except Exception as e:
        return [Failure("C02.build", "build-or-serialise-raises/" + exc_signature(e), repr(e)[:300])]
    try:
        sut.reset(provider)
        back = Component.from_ical(raw)
    except Exception as e:
        return [Failure("C02.parse", "parse-raises/" + exc_signature(e), f"{e!r} raw={raw[:300]!r}"[:500])]
    for m_ in T.ARG_MUTATIONS[:2]:       # the caller's own objects (value lists, parameter dicts) are not the library's to edit
        fails.append(Failure("C02.build", "argument-object-changed-in-place", m_))
    nodes = list(T.preorder(tree))
    got_nodes = back.walk()
    if [n["c"].upper() for n in nodes] != [c.name for c in got_nodes]:
        return [Failure("C02.nesting", "nesting-differs", f"{[n['c'].upper() for n in nodes]!r} vs {[c.name for c in got_nodes]!r}")]
    # the other documented serialisation, to_ical(sorted=False) (insertion order of properties), denotes the same tree
    try:
        sut.reset(provider)
        raw_u = root.to_ical(sorted=False)
        back_u = Component.from_ical(raw_u)

        def flat(c):
            out = []
            for k_ in sorted(str(x) for x in c.keys()):
                vs = c[k_] if isinstance(c[k_], list) else [c[k_]]
                out.append((k_, [(v_.to_ical(), sorted((str(a), str(b)) for a, b in getattr(v_, "params", {}).items())) for v_ in vs]))
            return out
        wu = back_u.walk()
        if [c.name for c in wu] != [c.name for c in got_nodes]:
            fails.append(Failure("C02.nesting", "nesting-differs/to_ical(sorted=False)", f"{[c.name for c in wu]!r} vs {[c.name for c in got_nodes]!r}"))
        else:
            for a_, b_ in zip(wu, got_nodes):
                if flat(a_) != flat(b_):
                    fails.append(Failure("C02.values", "unsorted-serialisation-denotes-other-properties", f"{a_.name}: {flat(a_)!r} vs {flat(b_)!r}"[:500]))
                    break
    except Exception as e:  # noqa: BLE001
        fails.append(Failure("C02.parse", "unsorted-serialisation-raises/" + exc_signature(e), repr(e)[:300]))
    # emitted text per component (BEGIN order == pre-order)
    blocks, stack = [], []
    for ln in unfold(raw):
        up = ln.upper()
        if up.startswith("BEGIN:"):
            b = []
            blocks.append(b)
            stack.append(b)
        elif up.startswith("END:"):
            stack.pop()
        else:
            stack[-1].append(ln)
    for i, (node, comp, blk) in enumerate(zip(nodes, got_nodes, blocks)):
        props = [(p[0].upper(), p[1], (p[2] if len(p) > 2 and p[2] else {})) for p in node["p"]]
        for pname, spec in extra.get(i, []):
            props = [q for q in props if q[0] != pname] + [(pname, spec, {})]
        if comp.errors:
            fails.append(Failure("C02.values", "property-dropped-into-errors", f"{comp.name}: {comp.errors!r}"[:400]))
        byname = {}
        for nm, spec, params in props:
            byname.setdefault(nm, []).append((spec, params))
        if sorted(byname) != sorted(str(k) for k in comp.keys()):
            fails.append(Failure("C02.names", "property-names-differ", f"{comp.name}: {sorted(byname)!r} vs {sorted(comp.keys())!r} errors={comp.errors!r}"[:400]))
            continue
        for nm, items in byname.items():
            vals = comp[nm]
            vals = vals if isinstance(vals, list) else [vals]
            if len(vals) != len(items):
                fails.append(Failure("C02.multi-valued", "value-count-differs", f"{nm}: {len(vals)} vs {len(items)}"))
                continue
            lines = []
            for ln in blk:
                try:
                    n, ps, val = parse_line(ln)
                except LineSyntaxError as e:
                    fails.append(Failure("C02.text", "emitted-line-not-rfc-grammar", f"{ln[:100]!r}: {e}"))
                    continue
                if n.upper() == nm:
                    lines.append(({p[0].upper(): p[1] for p in ps}, val))
            for j, ((spec, params), v) in enumerate(zip(items, vals)):
                kind = spec["k"] if spec["k"] != "dates" else ("dates-date" if spec["v"][0]["k"] == "date" else "dates")
                # (b) RFC type
                if nm in T.RFC_PROPS and type(v).__name__ != EXPECT_CLASS[kind]:
                    fails.append(Failure("C02.rfc-type", f"parsed-class-differs/{nm}", f"{type(v).__name__} vs {EXPECT_CLASS[kind]}"))
                    continue
                # (a) value
                try:
                    want = expected_value(nm, spec, provider)
                except Exception as e:  # noqa: BLE001
                    raise
                got = got_value(v)
                if want[0] == "instant":
                    d_ = getattr(v, "dt", None)
                    if isinstance(d_, datetime) and d_.utcoffset() is not None and d_.astimezone(UTC).replace(tzinfo=None) == want[1]:
                        got = want
                    else:
                        written = lines[j][0].get("TZID", [None])[0] if j < len(lines) else None
                        where = "@offset-without-iana-zone" if kind == "fixed" and named_after_a_zone_of_todays_offset(spec["off"], spec["v"], written) else ""
                        fails.append(Failure("C02.values" + where, f"aware-value-without-zone-id-not-read-back-as-the-same-instant/{kind}{where}",
                                             f"{nm}: got {d_!r} want instant {want[1]!r}Z raw-lines={[l for l in blk if l.upper().startswith(nm)][:2]!r}"[:500]))
                        got = want
                if got != want:
                    fails.append(Failure("C02.values", f"value-differs/{kind}", f"{nm}: got {got!r} want {want!r} raw-lines={[l for l in blk if l.upper().startswith(nm)][:2]!r}"[:600]))
                # parameters: supplied ones intact, derived ones correct
                gp = {str(k).upper(): (list(map(str, x)) if isinstance(x, (list, tuple)) else str(x)) for k, x in getattr(v, "params", {}).items()}
                for pk, pv in params.items():
                    w = [x.replace('"', "'") for x in pv] if isinstance(pv, list) else pv.replace('"', "'")
                    if gp.get(pk.upper()) != w:
                        fails.append(Failure("C02.parameters", "supplied-parameter-differs", f"{nm};{pk}: got {gp.get(pk.upper())!r} want {w!r}"))
                extra_p = set(gp) - {k.upper() for k in params} - {"VALUE", "TZID"}
                if extra_p:
                    fails.append(Failure("C02.parameters", "additional-parameter", f"{nm}: {sorted(extra_p)!r}"))
                # (c) emitted text
                if j < len(lines):
                    lp, lval = lines[j]
                    sk = spec_kind(nm, spec)
                    dflt = DEFAULT_VALUE.get(nm)
                    if sk and dflt and sk != dflt and "VALUE" not in {k.upper() for k in params}:
                        if lp.get("VALUE", [None])[0] != sk:
                            fails.append(Failure("C02.value-parameter", f"missing-or-wrong-VALUE/{nm}/{sk}", f"line params {lp!r} value {lval[:60]!r}"))
                    z = zone_of(nm, spec)
                    if "TZID" not in {k.upper() for k in params}:
                        if z == "UTC":
                            if "TZID" in lp or not all(part.split("/")[0].endswith("Z") for part in lval.split(",")):
                                fails.append(Failure("C02.tzid", f"utc-value-not-Z-or-with-TZID/{nm}", f"{lp!r} {lval[:60]!r}"))
                        elif z:
                            if lp.get("TZID", [None])[0] != z or "Z" in lval.split("/")[0]:
                                fails.append(Failure("C02.tzid", f"zoned-value-without-own-TZID/{nm}", f"{lp!r} {lval[:60]!r} want {z}"))
                # decoded(name) agrees where it is defined
                if kind in ("date", "naive", "utc", "zoned", "td", "int") and len(vals) == 1 and nm in T.RFC_PROPS:
                    try:
                        d = comp.decoded(nm)
                        dn = norm_dt(d) if not isinstance(d, int) else ("i", int(d))
                        if dn != want:
                            fails.append(Failure("C02.values", f"decoded-differs/{kind}", f"{nm}: {dn!r} vs {want!r}"))
                    except Exception as e:  # noqa: BLE001
                        fails.append(Failure("C02.values", f"decoded-raises/{nm}/" + exc_signature(e), repr(e)[:200]))
                if kind in ("geo", "cats", "text", "uri", "caladdr", "recur", "offset", "dates", "dates-date", "periods", "float", "bool") and len(vals) == 1 and j == 0:
                    # decoded(name) is defined for every property: it never fails, and for GEO / CATEGORIES it gives the plain values
                    try:
                        d = comp.decoded(nm)
                        if kind == "geo" and tuple(float(x) for x in d) != tuple(float(x) for x in spec["v"]):
                            fails.append(Failure("C02.values", "decoded-differs/geo", f"{nm}: {d!r} vs {spec['v']!r}"))
                        if kind == "cats" and [str(x) for x in d] != [str(x) for x in spec["v"]]:
                            fails.append(Failure("C02.values", "decoded-differs/cats", f"{nm}: {d!r} vs {spec['v']!r}"))
                    except Exception as e:  # noqa: BLE001
                        fails.append(Failure("C02.values", f"decoded-raises/{kind}/" + exc_signature(e), f"{nm}: {e!r}"[:200]))
                if kind == "period" and nm == "FREEBUSY" and len(vals) == 1:
                    try:
                        d = comp.decoded(nm)
                        if norm_dt(d) != want:
                            fails.append(Failure("C02.values", "decoded-differs/period", f"{d!r}"))
                    except Exception as e:  # noqa: BLE001
                        fails.append(Failure("C02.values", f"decoded-raises/{nm}/" + exc_signature(e), repr(e)[:200]))
    return fails[:12]


def info(case):
    nodes = list(T.preorder(case["tree"]))
    classes = []
    kinds = set()
    nprops = 0
    special = False
    for n in nodes:
        names = [p[0].upper() for p in n["p"]]
        if len(set(names)) < len(names):
            classes.append("multi-valued")
            special = True
        for p in n["p"]:
            nprops += 1
            k = p[1]["k"]
            if k == "dates":
                k = "dates-date" if p[1]["v"][0]["k"] == "date" else "dates"
                if p[1]["v"][0]["k"] == "zoned":
                    classes.append("kind:zoned")
                    special = True
            if k == "utc" and p[0].upper() == "TRIGGER":
                classes.append("kind:utc-trigger")
                special = True
            kinds.add(k)
            classes.append("kind:" + k)
            if k in ("date", "dates-date", "periods", "zoned"):
                special = True
            if len(p) > 2 and p[2]:
                classes.append("extra-params")
    if any(p[1]["k"] in ("fixed", "pfixed") for n in nodes for p in n["p"]):
        classes.append("tzinfo-without-zone-id")
    if any(len(p) > 3 and p[3] and p[3].get("join") for n in nodes for p in n["p"]):
        classes.append("list-valued-add")
    if case.get("setters"):
        classes.append("setter")
    if len(nodes) > 1:
        classes.append("nested")
    return {"nontrivial": nprops >= 2 and len(kinds) >= 2 and special, "classes": sorted(set(classes))}


# ----------------------------------------------------------------------------- RC-B / open finding regions
def region_none(case):
    return False


def region_idless_fixed_offset(case):
    """RC-AX: some value is aware with a datetime.timezone tzinfo (localised per value by the clause suffix)"""
    return any(p[1]["k"] == "fixed" for n in T.preorder(case["tree"]) for p in n["p"])


REGIONS = {"tzinfo-without-zone-id": region_idless_fixed_offset}

# ----------------------------------------------------------------------------- strategies

def _clean_text(tree):
    """keep the generated texts outside the RC-B region (backslash, literal %XX placeholders) - decided in C05/C07/C08"""
    def fix(s):
        return s.replace("\\", "/").replace("%2C", "%2c").replace("%3A", "%3a").replace("%3B", "%3b").replace("%5C", "%5c").replace("\r", " ")
    t = dict(tree)
    ps = []
    for p in tree["p"]:
        q = list(p)
        spec = dict(q[1])
        if spec["k"] in ("text", "uri", "caladdr"):
            spec["v"] = fix(spec["v"])
        elif spec["k"] == "cats":
            spec["v"] = [fix(x).replace(",", ".") for x in spec["v"]]
        q[1] = spec
        if len(q) > 2 and q[2]:
            q[2] = {k: ([fix(x) for x in v] if isinstance(v, list) else fix(v)) for k, v in q[2].items()}
        if q[0].upper() == "TZID" and tree["c"].upper() == "VTIMEZONE":
            continue
        # calendar dates span 0001-9999: a deterministic share of the date / floating / UTC values is moved to early/late years
        if spec["k"] in ("date", "naive", "utc") and (spec["v"][1] + spec["v"][2]) % 4 == 0:
            spec = dict(spec, v=[[1, 99, 753, 999, 1000, 1601, 9999][(spec["v"][2] + spec["v"][0]) % 7]] + list(spec["v"][1:]))
            q[1] = spec
        ps.append(q)
    t["p"] = ps
    t["s"] = [_clean_text(s) for s in tree["s"]]
    return t


SETTERS = {
    "VEVENT": [("DTSTART", "dt"), ("DTEND", "dt"), ("DURATION", "td"), ("DTSTAMP", "anydt"), ("LAST_MODIFIED", "anydt"), ("start", "dt"), ("end", "dt")],
    "VTODO": [("DTSTART", "dt"), ("DUE", "dt"), ("DURATION", "td"), ("DTSTAMP", "anydt"), ("start", "dt"), ("end", "dt")],
    "VJOURNAL": [("DTSTART", "dt"), ("DTSTAMP", "anydt")],
    "VALARM": [("TRIGGER", "trigger"), ("REPEAT", "int"), ("ACKNOWLEDGED", "anydt"), ("DURATION", "td")],
    "STANDARD": [("DTSTART", "naive"), ("TZOFFSETFROM", "offset"), ("TZOFFSETTO", "offset")],
    "DAYLIGHT": [("DTSTART", "naive"), ("TZOFFSETFROM", "offset"), ("TZOFFSETTO", "offset")],
}
EXCL = {"DTEND": {"DURATION", "DTEND", "end"}, "DUE": {"DURATION", "DUE", "end"}, "DURATION": {"DTEND", "DUE", "DURATION", "end"}, "end": {"DTEND", "DUE", "DURATION", "end"},
        "start": {"DTSTART", "start"}, "DTSTART": {"DTSTART", "start"}}


@st.composite
def cases(draw):
    tree = _clean_text(draw(st.one_of(T.s_tree(2, 3, False, "VCALENDAR"), T.s_tree(2, 3, False), T.s_tree(1, 3, False, "VEVENT"))))
    nodes = list(T.preorder(tree))
    for n in nodes:      # rules with an UNTIL of every kind an API user may supply (DATE, floating, UTC, zoned - also zones at +00:00)
        for p in n["p"]:
            if p[1]["k"] == "recur" and draw(st.integers(0, 1)):
                p[1]["v"] = {k: v for k, v in p[1]["v"].items() if k != "COUNT"}      # RFC 5545: UNTIL and COUNT exclude each other
                p[1]["v"]["UNTIL"] = draw(T.s_until)
    setters = []
    for i, n in enumerate(nodes):
        opts = SETTERS.get(n["c"].upper())
        if not opts or draw(st.integers(0, 2)):
            continue
        present = {p[0].upper() for p in n["p"]}
        used = set()
        for attr, kind in draw(st.lists(st.sampled_from(opts), max_size=2, unique_by=lambda o: o[0])):
            pname = {"LAST_MODIFIED": "LAST-MODIFIED", "start": "DTSTART", "end": "DTEND" if n["c"].upper() == "VEVENT" else "DUE"}.get(attr, attr)
            group = EXCL.get(attr, {attr}) | {pname}
            if (group & present) or (group & used) or (pname in ("DTEND", "DUE", "DURATION") and present & {"DTEND", "DUE", "DURATION"}):
                continue
            used |= group
            spec = draw({"dt": st.one_of(V.s_date, V.s_naive, V.s_utc, V.s_zoned), "td": V.s_td, "anydt": st.one_of(V.s_naive, V.s_utc, V.s_zoned),
                         "trigger": st.one_of(V.s_td, V.s_utc), "int": st.integers(0, 9).map(lambda x: {"k": "int", "v": x}), "naive": V.s_naive,
                         "offset": T.s_value("offset")}[kind])
            setters.append([i, attr, spec])
    tree = _with_list_adds(draw, tree)
    if draw(st.integers(0, 3)) == 0:
        tree = _with_idless_tzinfo(draw, tree)
    if draw(st.integers(0, 2)) == 0:
        tree = _with_value_objects(draw, tree)
    return {"provider": draw(st.sampled_from(["zoneinfo", "pytz"])), "tree": tree, "setters": setters}


def _with_value_objects(draw, tree):
    """some text / uri / cal-address / integer values are handed to add() as value objects of the library (or of a subclass of the
    library's class) that carry their parameters themselves"""
    t = dict(tree)
    props = []
    names = [q[0].upper() for q in tree["p"]]
    for p in tree["p"]:
        p = list(p)
        if names.count(p[0].upper()) == 1 and p[1]["k"] in ("text", "uri", "caladdr", "int") and len(p) <= 3 and p[0].upper() in T.RFC_PROPS and T.RFC_PROPS[p[0].upper()][0] == p[1]["k"] and draw(st.booleans()):
            while len(p) < 3:
                p.append(None)
            p.append({"typed": draw(st.sampled_from(["exact", "sub", "sub"]))})
        props.append(p)
    t["p"] = props
    t["s"] = [_with_value_objects(draw, x) for x in tree["s"]]
    return t


def _with_idless_tzinfo(draw, tree):
    """one zoned or UTC DTSTART/DTEND/DUE/RECURRENCE-ID value becomes an aware value whose tzinfo carries no zone id"""
    t = dict(tree)
    props = [list(p) for p in tree["p"]]
    idx = [i for i, p in enumerate(props) if p[0].upper() in ("DTSTART", "DTEND", "DUE", "RECURRENCE-ID") and p[1]["k"] in ("zoned", "utc", "naive")]
    if idx:
        i = draw(st.sampled_from(idx))
        kind = draw(st.sampled_from(["fixed", "fixed", "pfixed"]))
        off = draw(st.sampled_from(MATCH + (NOMATCH if kind == "fixed" else MATCH + [83, 1, 345])))
        props[i] = [props[i][0], {"k": kind, "v": list(props[i][1]["v"][:6]), "off": off}]
    t["p"] = props
    t["s"] = [_with_idless_tzinfo(draw, x) if draw(st.booleans()) else x for x in tree["s"]]
    return t


_JOINABLE = {"text", "uri", "caladdr", "naive", "utc", "zoned", "date", "td", "int"}


def _with_list_adds(draw, tree):
    """some repeated properties are supplied through one add(name, [v1, v2]) call (after, or instead of, a scalar add)"""
    t = dict(tree)
    props = [list(p) for p in tree["p"]]
    cand = [p for p in props if p[1]["k"] in _JOINABLE and p[0].upper() not in ("RDATE", "EXDATE", "CATEGORIES") and not (len(p) > 2 and p[2])
            and p[0].upper() in ("COMMENT", "ATTENDEE", "CONTACT", "RELATED-TO", "RESOURCES", "ATTACH", "DESCRIPTION", "X-MULTI", "REQUEST-STATUS", "EXRULE") or p[0].upper().startswith("X-")]
    cand = [p for p in cand if p[1]["k"] in _JOINABLE and not (len(p) > 2 and p[2])]
    if cand and draw(st.integers(0, 2)) == 0:
        src = draw(st.sampled_from(cand))
        for _ in range(draw(st.integers(1, 2))):
            props.append([src[0], src[1]])
    seen = {}
    for p in props:
        key = p[0].upper()
        if key in seen and p[1]["k"] in _JOINABLE and key not in ("RDATE", "EXDATE", "CATEGORIES") and not (len(p) > 2 and p[2]) and seen[key] and draw(st.booleans()):
            while len(p) < 3:
                p.append(None)
            p[2] = None
            p.append({"join": True})
        seen[key] = seen.get(key, True) and not (len(p) > 2 and p[2])
    t["p"] = props
    t["s"] = [_with_list_adds(draw, x) for x in tree["s"]]
    return t


_CANON = {
    "text": {"k": "text", "v": "Some text; with, punctuation: ok"}, "int": {"k": "int", "v": 3}, "uri": {"k": "uri", "v": "http://example.com/x?a=b"},
    "caladdr": {"k": "caladdr", "v": "mailto:a@example.com"}, "date": {"k": "date", "v": [999, 3, 4]},
    "utc": {"k": "utc", "v": [2021, 3, 4, 5, 6, 7]}, "td": {"k": "td", "d": 1, "s": 3600},
    "period": {"k": "period", "start": {"k": "utc", "v": [2021, 3, 4, 5, 0, 0]}, "dur": {"k": "td", "d": 0, "s": 3600}},
    "recur": {"k": "recur", "v": {"FREQ": "WEEKLY", "BYDAY": ["MO", "2FR"], "COUNT": 4}}, "geo": {"k": "geo", "v": [37.386013, -122.082932]},
    "offset": {"k": "offset", "s": -18000}, "cats": {"k": "cats", "v": ["a", "b c"]},
    "dates": {"k": "dates", "v": [{"k": "zoned", "v": [2021, 3, 4, 5, 0, 0], "tz": "Europe/Berlin"}, {"k": "zoned", "v": [2021, 4, 4, 5, 0, 0], "tz": "Europe/Berlin"}]},
    "dates-date": {"k": "dates", "v": [{"k": "date", "v": [2021, 3, 4]}, {"k": "date", "v": [2021, 3, 5]}]},
    "periods": {"k": "periods", "v": [{"k": "period", "start": {"k": "zoned", "v": [2021, 3, 4, 5, 0, 0], "tz": "America/New_York"}, "dur": {"k": "td", "d": 0, "s": 1800}}]},
}
_DT_VARIANTS = [{"k": "naive", "v": [753, 4, 21, 5, 6, 7]}, {"k": "naive", "v": [2021, 3, 4, 5, 6, 7]}, {"k": "utc", "v": [2021, 3, 4, 5, 6, 7]}, {"k": "zoned", "v": [2021, 3, 4, 5, 6, 7], "tz": "America/New_York"}]


def _sweep_cases():
    out = []
    for name, (default, alts) in sorted(T.RFC_PROPS.items()):
        for kind in (default,) + tuple(a for a in alts if a != "binary"):
            specs = _DT_VARIANTS if kind == "datetime" else [_CANON[kind]]
            for spec in specs:
                comp = {"TZOFFSETFROM": "STANDARD", "TZOFFSETTO": "DAYLIGHT", "TRIGGER": "VALARM", "REPEAT": "VALARM", "ACKNOWLEDGED": "VALARM", "FREEBUSY": "VFREEBUSY",
                        "DUE": "VTODO", "TZNAME": "STANDARD", "TZURL": "VTIMEZONE", "VERSION": "VCALENDAR", "PRODID": "VCALENDAR"}.get(name, "VEVENT")
                if name == "TZID":
                    continue
                for provider in ("zoneinfo", "pytz"):
                    out.append({"provider": provider, "tree": {"c": comp, "p": [[name, spec]], "s": []}, "setters": []})
    return out


def streams(tier):
    n = 800 if tier == "quick" else 6000
    return [Stream("rfc-name-x-kind", "fixed", 0, 4, _sweep_cases, True, False), Stream("api-programs", "hyp", n, 16, cases)]


LEVEL_TEXT = ("Every RFC 5545 property name is exercised with every value kind the RFC permits (complete for that table), and random API "
              "programs combine them with nesting, repeats, parameters and setters; the oracle is the supplied Python value plus an "
              "independent reading of the emitted text.")
