"""C09 - Parse result is invariant under line endings, BOM, str/bytes, folds, name case."""
import re

from hypothesis import strategies as st

from vlib.runner import Failure, Stream, exc_signature
from vlib import sut, trees as T, values as V
from vlib.model import ical_text as M

from checks.c01_parse_roundtrip import fixtures, _retext

import icalendar
from icalendar import Calendar

ID = "C09"
TECHNIQUE = "metamorphic testing: well-formed texts (grammar-generated incl. custom VTIMEZONEs, and all parseable fixtures) x generated compositions of RFC-insignificant rewrites; the parse of every variant must equal the parse of the base"
RULE = ("Base texts: trees rendered by the harness's renderer (zoned DTSTART/DTEND/DUE/RECURRENCE-ID/EXDATE/RDATE, FREEBUSY lists with "
        "parameters, a custom VTIMEZONE referenced by TZID before or after its use, mild text) and every parseable repository fixture. "
        "Rewrites (Hypothesis picks a non-empty subset and composes them): CRLF -> LF; leading UTF-8 BOM; str instead of bytes; refold "
        "(unfold completely, then CRLF+SP / CRLF+TAB at generated character boundaries, also inside names, lines of any length); "
        "trailing blank lines; upper / lower / title / swapped case of BEGIN/END, component names, property names and parameter names "
        "(values and parameter values untouched). Both providers; zone cache reset before each parse. Oracle: extract(parse(variant)) "
        "== extract(parse(base)) incl. UTC offsets and zone ids of all date-times, and identical to_ical. Non-trivial: the variant "
        "differs from the base and the tree has a zoned or list-valued property; distinct by hash.")
RULE += ' Rounds 7-8: X-PAD lines of 1 Ki - 390 Ki characters with folds aimed at absolute offsets k*2^n +-4; Calendar/Component/user-subclass entry points with node classes compared; single content lines through Contentline.from_ical(strict=False/True) under refolding.'
ASSUMPTIONS = ["a fold inside the octets of one character is not a rewrite of C09 ('between characters')",
               "a str carries no byte-order mark: BOM composed with str decodes with utf-8-sig first"]
REQUIRED_CLASSES = ["rw:lf", "rw:bom", "rw:str", "rw:refold", "rw:blank", "rw:case", "case-on-tzid-line", "case-on-freebusy-line", "lowercase-end-vtimezone",
                    "base:tree", "base:fixture", "custom-vtimezone"]

# ----------------------------------------------------------------------------- custom VTIMEZONE definitions (well-formed)
def _obs(kind, start, frm, to, name, rrule=None, rdates=None):
    p = [["DTSTART", {"k": "naive", "v": start}], ["TZOFFSETFROM", {"k": "offset", "s": frm}], ["TZOFFSETTO", {"k": "offset", "s": to}], ["TZNAME", {"k": "text", "v": name}]]
    if rrule:
        p.append(["RRULE", {"k": "recur", "v": rrule}])
    if rdates:
        p.append(["RDATE", {"k": "dates", "v": [{"k": "naive", "v": d} for d in rdates]}])
    return {"c": kind, "p": p, "s": []}


VTZ = {
    "Custom/EU": {"c": "VTIMEZONE", "p": [["TZID", {"k": "text", "v": "Custom/EU"}]], "s": [
        _obs("DAYLIGHT", [1981, 3, 29, 2, 0, 0], 3600, 7200, "CEST", {"FREQ": "YEARLY", "BYMONTH": [3], "BYDAY": ["-1SU"]}),
        _obs("STANDARD", [1996, 10, 27, 3, 0, 0], 7200, 3600, "CET", {"FREQ": "YEARLY", "BYMONTH": [10], "BYDAY": ["-1SU"]})]},
    "Custom/Fixed": {"c": "VTIMEZONE", "p": [["TZID", {"k": "text", "v": "Custom/Fixed"}]], "s": [
        _obs("STANDARD", [1970, 1, 1, 0, 0, 0], 19800, 20700, "+0545")]},
    "Custom/RD": {"c": "VTIMEZONE", "p": [["TZID", {"k": "text", "v": "Custom/RD"}]], "s": [
        _obs("STANDARD", [2019, 11, 3, 2, 0, 0], -14400, -18000, "EST", None, [[2020, 11, 1, 2, 0, 0], [2021, 11, 7, 2, 0, 0]]),
        _obs("DAYLIGHT", [2020, 3, 8, 2, 0, 0], -18000, -14400, "EDT", None, [[2021, 3, 14, 2, 0, 0]])]},
}


def base_text(case):
    if case["base"] == "tree":
        return M.render(case["tree"]).encode("utf-8")
    return fixtures()[case["fixture"]]


def split_lines(text):
    """physical text -> logical lines, keeping nothing of the original folding.  (Some fixtures fold with blank lines before the
    continuation, 'VERSION\\n\\n :2.0', which the library documents as accepted; the rewriter must not destroy such bases.)"""
    text = re.sub(r"(\r?\n)+[ \t]", "", text)
    return [ln for ln in re.split(r"\r?\n", text) if ln]


def recase(s, mode):
    if mode == "upper":
        return s.upper()
    if mode == "lower":
        return s.lower()
    if mode == "title":
        return s.title()
    return s.swapcase()


def recase_line(ln, mode, what):
    """re-case the property name (what has 'name'), parameter names ('param'), BEGIN/END + component name ('struct')"""
    q, idx = False, -1
    for i, ch in enumerate(ln):
        if ch == '"':
            q = not q
        elif ch == ":" and not q:
            idx = i
            break
    if idx < 0:
        return ln
    head, value = ln[:idx], ln[idx:]
    m = re.match(r"[A-Za-z0-9-]+", head)
    if not m:
        return ln
    name = m.group(0)
    is_struct = name.upper() in ("BEGIN", "END")
    out = recase(name, mode) if (("struct" in what) if is_struct else ("name" in what)) else name
    rest = head[m.end():]
    if "param" in what and rest:
        # parameter names: after each unquoted ';' up to '='
        res, q, i = [], False, 0
        while i < len(rest):
            ch = rest[i]
            if ch == '"':
                q = not q
                res.append(ch)
                i += 1
            elif ch == ";" and not q:
                j = rest.find("=", i)
                if j < 0:
                    res.append(rest[i:])
                    break
                res.append(";" + recase(rest[i + 1:j], mode))
                i = j
            else:
                res.append(ch)
                i += 1
        rest = "".join(res)
    if is_struct and "struct" in what:
        value = ":" + recase(value[1:], mode)
    return out + rest + value


def variant(case):
    raw = base_text(case)
    try:
        text = raw.decode("utf-8-sig")
    except UnicodeDecodeError:
        text = raw.decode("utf-8", "replace")
    rw = case["rewrites"]
    lines = None
    if "refold" in rw or "case" in rw:
        lines = split_lines(text)
        if "case" in rw:
            lines = [recase_line(ln, rw["case"]["mode"], rw["case"]["what"]) for ln in lines]
        if "refold" in rw:
            cuts = rw["refold"]
            new = []
            for i, ln in enumerate(lines):
                cs = [c for c in cuts[i % len(cuts)]] if cuts else []
                new.append(M.fold_line(ln, cs, " \t") if cs and len(ln) > 1 else ln)
            lines = new
        text = "\r\n".join(lines) + "\r\n"
    if "aim" in rw:
        # folds of the long X-PAD line placed so that CR, LF or the white space falls on an absolute character offset k*target+delta
        aim = rw["aim"]
        eol = "\n" if "lf" in rw else "\r\n"
        lines = split_lines(text) if lines is None else lines
        if "refold" in rw:       # the lines are physical already; keep them, only the pad line is re-cut
            lines = text.split("\r\n")[:-1]
        out, pos = [], 0
        for ln in lines:
            if ln.startswith(("X-PAD:", "x-pad:", "X-Pad:", "x-PAD:")) and "\r" not in ln:
                cs, k = [], 1
                while True:
                    i = k * aim["target"] + aim["delta"] - pos - len(cs) * (len(eol) + 1)
                    if i >= len(ln):
                        break
                    if i >= 1:
                        cs.append(i)
                    k += 1
                pieces, last = [], 0
                for i in cs:
                    pieces.append(ln[last:i])
                    last = i
                pieces.append(ln[last:])
                ln = ("\r\n" + aim["ws"]).join(pieces)
            out.append(ln)
            pos += len(ln.replace("\r\n", eol)) + len(eol)
        text = "\r\n".join(out) + "\r\n"
    if "lf" in rw:
        text = text.replace("\r\n", "\n")
    if "blank" in rw:
        text += ("\n" if "lf" in rw else "\r\n") * rw["blank"]
    if "str" in rw:
        return text
    data = text.encode("utf-8")
    if "bom" in rw:
        data = b"\xef\xbb\xbf" + data
    return data


class MyCalendar(Calendar):
    """a user subclass as entry point: from_ical is inherited and must not care how the text spells things"""


class MyEvent(icalendar.Event):
    pass


ENTRIES = {"Calendar": Calendar, "subclass": MyCalendar, "Component": icalendar.cal.Component, "event-subclass": MyEvent}


def _line_level(case, base):
    """the same relation one level down: a single content line read by Contentline.from_ical (lenient and strict) does not depend on
    where it is folded, on LF/CRLF folds, on space/tab, or on str/bytes"""
    from icalendar.parser import Contentline
    try:
        text = base.decode("utf-8-sig")
    except UnicodeDecodeError:
        return []
    fails = []
    lines = [ln for ln in split_lines(text) if ";" in ln.split(":")[0] and len(ln) > 8][:5]
    cuts = (case["rewrites"].get("refold") or [[3]])[0] or [3]

    def outcome(data, strict):
        try:
            n, p_, v = Contentline.from_ical(data, strict=strict).parts()
            return ("ok", str(n), sorted((str(k), [str(x) for x in val] if isinstance(val, list) else str(val)) for k, val in p_.items()), str(v))
        except ValueError as e:
            return ("ValueError",)
    for ln in lines:
        for strict in (False, True):
            ref = outcome(ln, strict)
            for ws, eol, as_bytes in ((" ", "\r\n", False), ("\t", "\r\n", True), (" ", "\n", False), ("\t", "\n", True)):
                folded = M.fold_line(ln, [c for c in cuts if 0 < c < len(ln)] or [1], ws)
                if eol == "\n":
                    folded = folded.replace("\r\n", "\n")
                got = outcome(folded.encode("utf-8") if as_bytes else folded, strict)
                if got != ref:
                    fails.append(Failure("C09.invariant", f"single-line-differs/strict={strict}", f"{ln[:100]!r} unfolded -> {ref!r}; folded {folded[:60]!r} -> {got!r}"[:600]))
                    return fails
    return fails


def judge(case):
    fails = []
    base = base_text(case)
    if case["base"] == "tree" or len(base) < 20000:
        try:
            fails += _line_level(case, base)
        except Exception as e:  # noqa: BLE001
            fails.append(Failure("C09.invariant", "single-line-check-raises/" + exc_signature(e), repr(e)[:200]))
    Calendar = ENTRIES[case.get("entry", "Calendar")]     # noqa: N806 - the entry point of this case
    if re.search(rb"\r(?!\n)", base):
        return []      # a bare CR is data, not a line ending: such a base (one fixture uses CR CR LF) is outside 'LF instead of CRLF'
    var = variant(case)
    for provider in sut.PROVIDERS:
        sut.reset(provider)
        try:
            b = Calendar.from_ical(base, multiple=True)
        except Exception:  # noqa: BLE001 - not a well-formed base
            if case["base"] == "tree":
                fails.append(Failure("C09.base", "generated-base-rejected", repr(base[:200])))
            return fails
        eb = [T.extract(c) for c in b]
        sb = [c.to_ical() for c in b]
        sut.reset(provider)
        try:
            v = Calendar.from_ical(var, multiple=True)
        except Exception as e:  # noqa: BLE001
            fails.append(Failure("C09.invariant", "variant-rejected/" + exc_signature(e),
                                 f"rewrites={sorted(case['rewrites'])} provider={provider}: {e!r} variant={var[:300]!r}"[:600]))
            continue
        ev = [T.extract(c) for c in v]
        tb, tv = [type(x).__qualname__ for c in b for x in c.walk()], [type(x).__qualname__ for c in v for x in c.walk()]
        if tb != tv:
            fails.append(Failure("C09.invariant", "node-classes-differ", f"entry={case.get('entry')} rewrites={sorted(case['rewrites'])} provider={provider}: {tb[:4]} vs {tv[:4]}"))
            continue
        if ev != eb:
            fails.append(Failure("C09.invariant", "tree-differs", f"rewrites={sorted(case['rewrites'])} provider={provider}: {_diff(eb, ev)} variant={var[:200]!r}"[:700]))
            continue
        if [c.to_ical() for c in v] != sb:
            fails.append(Failure("C09.invariant", "reserialisation-differs", f"provider={provider}"))
    return fails


def _diff(e1, e2):
    if len(e1) != len(e2):
        return f"{len(e1)} vs {len(e2)} top-level components"
    from checks.c01_parse_roundtrip import _cdiff
    for a, b in zip(e1, e2):
        if a != b:
            return _cdiff(a, b)
    return "?"


def info(case):
    rw = case["rewrites"]
    classes = ["base:" + case["base"], "entry:" + case.get("entry", "Calendar")] + ["rw:" + k for k in rw]
    if "aim" in rw:
        classes.append(f"aimed-fold-at-k*{rw['aim']['target']}")
    base = base_text(case)
    up = base.upper()
    special = b"TZID=" in up or b"FREEBUSY" in up or b"RDATE" in up or b"EXDATE" in up
    if "case" in rw:
        mode, what = rw["case"]["mode"], rw["case"]["what"]
        if "name" in what and b"TZID=" in up and mode != "upper":
            classes.append("case-on-tzid-line")
        if "name" in what and b"FREEBUSY" in up and mode != "upper":
            classes.append("case-on-freebusy-line")
        if "struct" in what and b"END:VTIMEZONE" in up and mode != "upper":
            classes.append("lowercase-end-vtimezone")
    if b"TZID:CUSTOM/" in up:
        classes.append("custom-vtimezone")
    try:
        differs = variant(case) != base
    except Exception:  # noqa: BLE001
        differs = False
    return {"nontrivial": differs and special, "classes": sorted(set(classes))}


REGIONS = {}

# ----------------------------------------------------------------------------- strategies
_cuts = st.lists(st.lists(st.integers(1, 90), min_size=0, max_size=3), min_size=1, max_size=7)
_case = st.fixed_dictionaries({"mode": st.sampled_from(["lower", "lower", "title", "swap", "upper"]),
                               "what": st.lists(st.sampled_from(["name", "param", "struct"]), min_size=1, max_size=3, unique=True)})


@st.composite
def rewrites(draw):
    keys = draw(st.lists(st.sampled_from(["lf", "bom", "str", "refold", "blank", "case", "case"]), min_size=1, max_size=5, unique=True))
    rw = {}
    for k in keys:
        if k == "refold":
            rw[k] = draw(_cuts)
        elif k == "blank":
            rw[k] = draw(st.integers(1, 3))
        elif k == "case":
            rw[k] = draw(_case)
        else:
            rw[k] = True
    return rw


@st.composite
def tree_bases(draw):
    zone_id = draw(st.sampled_from(sorted(VTZ)))
    wall = st.tuples(st.integers(2019, 2022), st.integers(1, 12), st.integers(1, 28), st.integers(0, 23), st.sampled_from([0, 30]), st.just(0)).map(list)
    comps = []
    for _ in range(draw(st.integers(1, 3))):
        kind = draw(st.sampled_from(["VEVENT", "VTODO", "VFREEBUSY", "VJOURNAL"]))
        props = [["UID", {"k": "text", "v": "u-" + str(draw(st.integers(0, 99)))}]]
        zsrc = draw(st.sampled_from(["custom", "iana", "iana"]))
        def zoned(w):
            if zsrc == "custom":
                return {"k": "naive", "v": w}, {"TZID": zone_id}
            return {"k": "zoned", "v": w, "tz": draw(st.sampled_from(V.ZONES))}, None
        names = {"VEVENT": ["DTSTART", "DTEND", "RECURRENCE-ID", "EXDATE", "RDATE"], "VTODO": ["DTSTART", "DUE", "EXDATE"], "VFREEBUSY": ["DTSTART", "FREEBUSY"],
                 "VJOURNAL": ["DTSTART", "RDATE"]}[kind]
        for nm in draw(st.lists(st.sampled_from(names), min_size=1, max_size=4, unique=True)):
            if nm in ("EXDATE", "RDATE"):
                ws = draw(st.lists(wall, min_size=1, max_size=3))
                if zsrc == "custom":
                    props.append([nm, {"k": "dates", "v": [{"k": "naive", "v": w} for w in ws]}, {"TZID": zone_id}])
                else:
                    z = draw(st.sampled_from(V.ZONES))
                    props.append([nm, {"k": "dates", "v": [{"k": "zoned", "v": w, "tz": z} for w in ws]}])
            elif nm == "FREEBUSY":
                ps = [{"k": "period", "start": {"k": "utc", "v": draw(wall)}, "dur": {"k": "td", "d": 0, "s": draw(st.sampled_from([1800, 3600, 90000]))}} for _ in range(draw(st.integers(1, 3)))]
                props.append([nm, {"k": "periods", "v": ps}, {"FBTYPE": "BUSY"}])
            else:
                spec, params = zoned(draw(wall))
                props.append([nm, spec] + ([params] if params else []))
        if draw(st.booleans()):
            props.append(["SUMMARY", {"k": "text", "v": draw(st.sampled_from(["Ünï cödé long " * 6, "a;b,c", "plain", "x" * 120, "first\u2028second", "para\u2029graph", "nel\x85here", "vt\x0bff\x0cfs\x1c", "nbsp\u00a0end "]))}, {"LANGUAGE": "de", "X-Par": "a:b"}])
        comps.append({"c": kind, "p": props, "s": []})
    tzs = [VTZ[zone_id]]
    subs = tzs + comps if draw(st.booleans()) else comps + tzs
    tree = {"c": "VCALENDAR", "p": [["VERSION", {"k": "text", "v": "2.0"}], ["PRODID", {"k": "text", "v": "-//verif//c09"}]], "s": subs}
    rw = draw(rewrites())
    if draw(st.integers(0, 3)) == 0:
        target = draw(st.sampled_from([1 << 10, 1 << 12, 1 << 13, 1 << 14, 1 << 15, 1 << 16, 1 << 16, 1 << 17, 10000, 100000]))
        rw["aim"] = {"target": target, "delta": draw(st.integers(-4, 3)), "ws": draw(st.sampled_from(" \t"))}
        n = target * draw(st.sampled_from([1, 1, 2, 3])) + 300
        tree["p"].append(["X-PAD", {"k": "text", "v": draw(st.sampled_from(["p", "pad ", "\u00e4"])) * n}])
        tree["p"][-1][1]["v"] = tree["p"][-1][1]["v"][:n]
    return {"base": "tree", "tree": tree, "rewrites": rw, "entry": draw(st.sampled_from(["Calendar", "Calendar", "subclass", "Component", "event-subclass"]))}


def fixture_bases():
    return st.builds(lambda f, rw, e: {"base": "fixture", "fixture": f, "rewrites": rw, "entry": e}, st.sampled_from(sorted(fixtures())), rewrites(),
                     st.sampled_from(["Calendar", "Calendar", "subclass", "Component", "event-subclass"]))


def streams(tier):
    n = 150 if tier == "quick" else 4000
    return [Stream("generated-bases", "hyp", n, 16, tree_bases, timeout_s=60), Stream("fixture-bases", "hyp", n, 16, fixture_bases, timeout_s=60)]


LEVEL_TEXT = ("Each generated or real well-formed text is rewritten by a random composition of the rewrites RFC 5545 declares "
              "insignificant and parsed under both providers; the metamorphic relation needs no reference parser. Sampling of the "
              "composition space; every single rewrite kind and the name-case rewrites on TZID-bearing, FREEBUSY and END:VTIMEZONE lines "
              "are required to occur.")
