"""C14 - Alarm times = anchor + TRIGGER + k*DURATION, k=0..REPEAT (RFC 5545/9074)."""
from collections import Counter
from datetime import date, datetime, timedelta, timezone

from hypothesis import strategies as st

from vlib.runner import Failure, Stream, exc_signature
from vlib import sut, values as V
from vlib.model import render as R

from icalendar import Alarm, Event, Todo
from icalendar.alarms import Alarms
from icalendar.timezone import tzp

ID = "C14"
TECHNIQUE = "Hypothesis-generated events/todos with alarm lists, built via API, parsed from an own rendering, or fed to the manual Alarms API; independent alarm-time reference model (multiset comparison)"
RULE = ("Hypothesis: VEVENT/VTODO with start in {absent, date, floating, UTC, zoned (incl. wall times next to DST changes)}, end spec in "
        "{DTEND/DUE of the same kind, DURATION (days or time-of-day), none}, 0-4 alarms (relative trigger +- days/seconds/mixed/zero, "
        "RELATED absent/START/END, absolute UTC trigger, no TRIGGER; REPEAT 0-5 with/without DURATION), optional local time zone; "
        "three build paths (API setters, parsing the harness's own rendering, manual Alarms().add_alarm/set_start/set_end); both "
        "providers. Oracle: independent model - anchor = start or end (DTEND/DUE | start + DURATION | date start + 1 day | start), "
        "times = anchor + trigger + k*DURATION for k = 0..REPEAT iff both present, absolute triggers independent of the "
        "component, alarms without TRIGGER contribute nothing; compared as a multiset of (alarm index, instant/date). For zoned "
        "anchors whose addition crosses an offset change wall-clock and elapsed arithmetic are both accepted. Missing start/end: "
        "only the documented incomplete-information errors, and only when the model says information is missing. Non-trivial: an "
        "alarm with REPEAT >= 1 and DURATION, or RELATED=END, or a date start; distinct by hash.")
RULE += ' Rounds 7-8: triggers given by attribute, add() with plain/typed values, item assignment + RELATED setter; results must be normalised local times.'
ASSUMPTIONS = ["an event without DTSTART may answer IncompleteComponent even if all alarms are absolute (documented error)",
               "date + whole-day offset stays a date, otherwise midnight is used (documented _add rule)",
               "with a local time zone set a date-valued alarm time may be reported as the date or as local midnight"]
REQUIRED_CLASSES = ["manual-history", "absolute-twin-of-relative", "repeat-with-duration", "related-end", "date-start", "absolute-trigger", "path:api", "path:parse", "path:manual",
                    "no-trigger", "zoned-start", "missing-start"]

DOCUMENTED = {"ComponentStartMissing", "ComponentEndMissing", "IncompleteComponent", "IncompleteAlarmInformation"}


def td(x):
    return timedelta(days=x["d"], seconds=x["s"])


def is_d(x):
    return isinstance(x, date) and not isinstance(x, datetime)


def add(dt, delta):
    """reference _add: -> list of acceptable results"""
    if is_d(dt):
        if delta.seconds == 0:
            return [dt + delta]
        dt = datetime(dt.year, dt.month, dt.day)
    if dt.tzinfo is None:
        return [dt + delta]
    # aware: wall-clock arithmetic and elapsed arithmetic are both accepted
    wall_naive = dt.replace(tzinfo=None) + delta
    tz = dt.tzinfo
    if hasattr(tz, "localize"):
        wall = V.pytz_local(tz, wall_naive)
    else:
        wall = wall_naive.replace(tzinfo=tz)
    elapsed = (dt.astimezone(timezone.utc) + delta)
    return [wall, elapsed]


def model_times(case, provider):
    """-> ('times', [(alarm_index, [acceptable values])]) | ('error', names)"""
    start = V.dec(case["start"], provider) if case["start"] else None
    es = case["endspec"]
    if case["path"] == "manual":
        end = V.dec(es["v"], provider) if es["t"] == "end" else None
    else:
        if es["t"] == "end":
            end = V.dec(es["v"], provider)
        elif start is None:
            end = None
        elif es["t"] == "duration":
            end = start + td(es["v"])
        else:
            end = start + timedelta(days=1) if is_d(start) else start
    out = []
    need_start = need_end = False
    for i, a in enumerate(case["alarms"]):
        trig = a["trigger"]
        if trig is None:
            continue
        if trig["k"] == "utc":
            bases = [V.dec(trig, provider)]
        else:
            related_end = a.get("related") == "END"
            anchor = end if related_end else start
            if anchor is None:
                if related_end:
                    need_end = True
                else:
                    need_start = True
                continue
            bases = add(anchor, td(trig))
        reps = [bases]
        if a.get("repeat") and a.get("duration"):
            for k in range(1, a["repeat"] + 1):
                acc = []
                for b in bases:
                    acc += add(b, td(a["duration"]) * k)
                reps.append(acc)
        for r in reps:
            out.append((i, r))
    if case["path"] != "manual" and start is None:
        ok_times = not (need_start or need_end)
        return ("error", {"IncompleteComponent"}, out if ok_times else None)
    if need_start or need_end:
        names = set()
        if need_start:
            names.add("ComponentStartMissing")
        if need_end:
            names.add("ComponentEndMissing")
        return ("error", names, None)
    return ("times", out)


def build(case, provider):
    cls = Event if case["comp"] == "Event" else Todo
    endname = "DTEND" if cls is Event else "DUE"
    path = case["path"]
    if path == "parse":
        lines = [f"BEGIN:{cls.name}", "UID:verif-c14"]
        if case["start"]:
            lines.append(R.prop_line("DTSTART", case["start"]))
        es = case["endspec"]
        if es["t"] == "end":
            lines.append(R.prop_line(endname, es["v"]))
        elif es["t"] == "duration":
            lines.append(R.prop_line("DURATION", es["v"]))
        for a in case["alarms"]:
            lines.append("BEGIN:VALARM")
            lines.append("ACTION:DISPLAY")
            t = a["trigger"]
            if t is not None:
                relv = a.get("related")
                if relv and a.get("related_case"):     # parameter values outside quotes are case-insensitive (RFC 5545 3.2)
                    relv = {"lower": relv.lower(), "title": relv.title()}[a["related_case"]]
                rel = f";RELATED={relv}" if relv else ""
                if t["k"] == "utc":
                    lines.append(f"TRIGGER;VALUE=DATE-TIME:{R.fmt_dt(t['v'], True)}")
                else:
                    lines.append(f"TRIGGER{rel}:{R.fmt_dur(t)}")
            if a.get("repeat") is not None:
                lines.append(f"REPEAT:{a['repeat']}")
            if a.get("duration"):
                lines.append(f"DURATION:{R.fmt_dur(a['duration'])}")
            lines += [f"{n_}:{v_}" for n_, v_ in (a.get("extra") or [])]      # the other properties an alarm may carry do not move its times
            lines.append("END:VALARM")
        lines.append(f"END:{cls.name}")
        comp = cls.from_ical("\r\n".join(lines) + "\r\n")
        return comp, comp.walk("VALARM")
    comp = cls()
    alarms = []
    if path == "api":
        if case["start"]:
            comp.start = V.dec(case["start"], provider)
        es = case["endspec"]
        if es["t"] == "end":
            comp.end = V.dec(es["v"], provider)
        elif es["t"] == "duration":
            comp.DURATION = td(es["v"])
    for a in case["alarms"]:
        al = Alarm()
        t = a["trigger"]
        how = a.get("how") or "attr"
        if t is not None and how != "attr":
            # the other ways of giving an alarm its trigger: add() with a plain or an already typed value (which add() keeps), item
            # assignment of a typed value followed by the RELATED setter
            from icalendar.prop import vDuration, vDatetime, vDDDTypes
            val = V.dec(t, provider) if t["k"] == "utc" else td(t)
            typed = {"add-typed": (vDatetime if t["k"] == "utc" else vDuration), "item-typed": (vDatetime if t["k"] == "utc" else vDuration), "add-ddd": vDDDTypes}.get(how)
            obj = typed(val) if typed else val
            rel = {"RELATED": a["related"]} if a.get("related") and t["k"] != "utc" else None
            if how == "item-typed":
                al["TRIGGER"] = obj
                if rel:
                    al.TRIGGER_RELATED = a["related"]
            else:
                al.add("TRIGGER", obj, parameters=rel)
        elif t is not None:
            al.TRIGGER = V.dec(t, provider) if t["k"] == "utc" else td(t)
            if a.get("related"):
                al.TRIGGER_RELATED = a["related"]
        if a.get("repeat") is not None:
            al.REPEAT = a["repeat"]
        if a.get("duration"):
            al.DURATION = td(a["duration"])
        for n_, v_ in (a.get("extra") or []):
            al.add(n_, v_)
        alarms.append(al)
        if path == "api":
            comp.add_component(al)
    return comp, alarms


def judge(case):
    provider = case.get("provider", "zoneinfo")
    sut.reset(provider)
    exp = model_times(case, provider)
    try:
        comp, alarm_objs = build(case, provider)
    except Exception as e:
        return [Failure("C14.build", "build-raises/" + exc_signature(e), f"{e!r}"[:300])]
    try:
        if case["path"] == "manual":
            A = Alarms()
            for al in alarm_objs:
                A.add_alarm(al)
            for h in case.get("history") or []:     # earlier life of the same Alarms object: other starts/ends, times read
                try:
                    A.set_start(V.dec(h, provider))
                    A.set_end(V.dec(h, provider))
                    A.times
                except Exception:  # noqa: BLE001 - only the final state is judged
                    pass
            if case.get("history"):
                A.set_start(None)
                A.set_end(None)
            if case["start"]:
                A.set_start(V.dec(case["start"], provider))
            if case["endspec"]["t"] == "end":
                A.set_end(V.dec(case["endspec"]["v"], provider))
        else:
            A = comp.alarms
        if case.get("local_tz"):
            A.set_local_timezone(case["local_tz"])
        times = A.times
        got = ("times", times)
    except Exception as e:
        got = ("error", type(e).__name__, e)
    if got[0] == "error":
        name = got[1]
        mro = {c.__name__ for c in type(got[2]).__mro__}
        if exp[0] == "error" and (name in exp[1] or mro & exp[1]):
            return []
        if exp[0] == "error":
            return [Failure("C14.errors", f"wrong-error/{name}", f"expected {sorted(exp[1])}, got {got[2]!r}"[:300])]
        sig = "undocumented-error/" + exc_signature(got[2]) if not (mro & DOCUMENTED) else f"documented-error-although-complete/{name}"
        return [Failure("C14.errors", sig, f"{got[2]!r}"[:300])]
    # got times
    if exp[0] == "error":
        if exp[2] is None:
            return [Failure("C14.errors", "no-error-although-information-missing", f"expected {sorted(exp[1])}")]
        want = exp[2]
    else:
        want = exp[1]
    idx = {id(a): i for i, a in enumerate(alarm_objs)}
    got_items = []
    for t in times:
        i = idx.get(id(t.alarm))
        if i is None:
            return [Failure("C14.times", "alarm-time-for-unknown-alarm", repr(t.alarm)[:200])]
        got_items.append((i, t.trigger))
    # multiset matching with alternatives
    remaining = list(want)
    for i, val in got_items:
        hit = None
        for j, (wi, alts) in enumerate(remaining):
            if wi == i and any(equal(val, a, case) for a in alts):
                hit = j
                break
        if hit is None:
            return [Failure("C14.times", "unexpected-alarm-time", f"alarm {i}: {val!r}; expected {[(w, [str(x) for x in a]) for w, a in remaining if w == i][:6]!r}"[:500])]
        remaining.pop(hit)
    if remaining:
        return [Failure("C14.times", "missing-alarm-time", f"{[(w, [str(x) for x in a]) for w, a in remaining][:4]!r} got={[(i, str(v)) for i, v in got_items][:8]!r}"[:500])]
    return []


def equal(got, want, case):
    local = case.get("local_tz")
    if is_d(want):
        if is_d(got):
            return got == want
        if local and isinstance(got, datetime):   # date reported as local midnight
            return got.replace(tzinfo=None) == datetime(want.year, want.month, want.day) and got.tzinfo is not None
        return False
    if not isinstance(got, datetime):
        return False
    if want.tzinfo is None:
        if got.tzinfo is None:
            return got == want and not local
        return bool(local) and got.replace(tzinfo=None) == want
    if got.tzinfo is None or got.astimezone(timezone.utc) != want.astimezone(timezone.utc):
        return False
    # a pytz value must be a valid local time (normalised): its wall clock and offset are what a reader sees
    if hasattr(got.tzinfo, "normalize") and got.tzinfo.normalize(got).utcoffset() != got.utcoffset():
        return False
    return True


def info(case):
    classes = ["path:" + case["path"], "comp:" + case["comp"]]
    if case["path"] != "parse":
        classes += sorted({"trigger-given-by:" + (a.get("how") or "attr") for a in case["alarms"] if a["trigger"] is not None})
    nt = False
    if case["start"] is None:
        classes.append("missing-start")
    elif case["start"]["k"] == "date":
        classes.append("date-start")
        nt = True
    elif case["start"]["k"] == "zoned":
        classes.append("zoned-start")
    for a in case["alarms"]:
        if a["trigger"] is None:
            classes.append("no-trigger")
        elif a["trigger"]["k"] == "utc":
            classes.append("absolute-trigger")
        if a.get("repeat") and a.get("duration") and a["trigger"] is not None:
            classes.append("repeat-with-duration")
            nt = True
        if a.get("related") == "END" and a["trigger"] is not None and a["trigger"]["k"] == "td":
            classes.append("related-end")
            nt = True
    if case.get("local_tz"):
        classes.append("local-tz")
    if case.get("history"):
        classes.append("manual-history")
    if case.get("twin"):
        classes.append("absolute-twin-of-relative")
    return {"nontrivial": nt, "classes": sorted(set(classes))}


REGIONS = {}

# ----------------------------------------------------------------------------- strategies
_trig_td = st.one_of(st.integers(-3, 3).map(lambda d: {"k": "td", "d": d, "s": 0}),
                     st.sampled_from([-86400 * 2 - 60, -3600, -900, -1, 0, 1, 600, 5400, 90000]).map(
                         lambda s: {"k": "td", "d": s // 86400, "s": s % 86400}))
_dur = st.one_of(st.sampled_from([60, 300, 3600, 86400, 90000, 5, 0, 0]).map(lambda s: {"k": "td", "d": s // 86400, "s": s % 86400}))


@st.composite
def cases(draw):
    provider = draw(st.sampled_from(["zoneinfo", "pytz"]))
    path = draw(st.sampled_from(["api", "parse", "manual"]))
    start = draw(st.one_of(st.none(), V.s_date, V.s_date, V.s_naive, V.s_utc, V.s_zoned, V.s_zoned_dst))
    if start is None:
        es = {"t": "none"}
        if path == "manual" and draw(st.booleans()):
            es = {"t": "end", "v": draw(V.s_utc)}
    else:
        kind = draw(st.sampled_from(["none", "end", "duration"]))
        if kind == "end":
            off = draw(st.integers(0, 5))
            v = dict(start)
            vv = list(start["v"])
            vv[2] = min(28, vv[2] + off) if off and vv[2] + off <= 28 else vv[2]
            if start["k"] != "date" and vv == list(start["v"]):
                vv[3] = min(23, vv[3] + draw(st.integers(0, 3)))
            v["v"] = vv
            es = {"t": "end", "v": v}
        elif kind == "duration" and path != "manual":
            if start["k"] == "date":
                es = {"t": "duration", "v": {"k": "td", "d": draw(st.integers(0, 10)), "s": 0}}
            else:
                es = {"t": "duration", "v": draw(st.one_of(V.s_td_days.filter(lambda x: x["d"] >= 0), st.sampled_from([60, 3600, 5400, 90000]).map(
                    lambda s: {"k": "td", "d": s // 86400, "s": s % 86400})))}
        else:
            es = {"t": "none"}
    alarms = []
    for _ in range(draw(st.integers(0, 4))):
        tk = draw(st.sampled_from(["rel", "rel", "rel", "abs", "none"]))
        a = {"trigger": None}
        if tk == "rel":
            a["trigger"] = draw(_trig_td)
            a["related"] = draw(st.sampled_from([None, None, "START", "END", "END"]))
            a["related_case"] = draw(st.sampled_from([None, None, "lower", "title"]))
        elif tk == "abs":
            a["trigger"] = draw(V.s_utc)
        a["repeat"] = draw(st.sampled_from([None, 0, 1, 2, 5]))
        a["duration"] = draw(st.one_of(st.none(), _dur, _dur))
        a["how"] = draw(st.sampled_from(["attr", "attr", "add", "add-typed", "item-typed", "add-ddd"]))
        a["extra"] = draw(st.lists(st.sampled_from([["PROXIMITY", "ARRIVE"], ["PROXIMITY", "DEPART"], ["DESCRIPTION", "wake up"], ["SUMMARY", "s"], ["UID", "alarm-1"],
                                                    ["ATTACH", "http://example.com/sound.wav"], ["ATTENDEE", "mailto:a@example.com"], ["X-APPLE-DEFAULT-ALARM", "TRUE"],
                                                    ["X-WR-ALARMUID", "u"], ["RELATED-TO", "other"], ["X-LIC-ERROR", "none"]]), max_size=2, unique_by=lambda e: e[0]))
        alarms.append(a)
    twin = False
    if start is not None and start["k"] in ("utc", "zoned") and draw(st.integers(0, 2)) == 0:
        # an absolute alarm at the very instant of a relative one, with the same repeats (the two must not influence each other)
        for a in list(alarms):
            if a["trigger"] is not None and a["trigger"]["k"] == "td" and a.get("related") != "END":
                at = (V.dec(start, "zoneinfo") + td(a["trigger"])).astimezone(timezone.utc)
                alarms.insert(draw(st.integers(0, len(alarms))), {"trigger": {"k": "utc", "v": [at.year, at.month, at.day, at.hour, at.minute, at.second]},
                                                                   "repeat": a["repeat"], "duration": a["duration"]})
                twin = True
                break
    local = draw(st.sampled_from([None, None, None, "Europe/Berlin", "America/New_York"]))
    history = None
    if path == "manual" and start is not None and draw(st.booleans()):
        history = draw(st.lists(st.one_of(V.s_utc, V.s_zoned, V.s_zoned_dst, V.s_date), max_size=2))
        if start["k"] in ("utc", "zoned"):    # the same instant in another zone
            inst = V.dec(start, "zoneinfo").astimezone(timezone.utc)
            z = draw(st.sampled_from(["Europe/Berlin", "America/New_York", "Asia/Kolkata", "UTC"]))
            w = inst.astimezone(__import__("zoneinfo").ZoneInfo(z))
            history.append({"k": "utc", "v": [w.year, w.month, w.day, w.hour, w.minute, w.second]} if z == "UTC" else
                           {"k": "zoned", "v": [w.year, w.month, w.day, w.hour, w.minute, w.second], "tz": z, "fold": w.fold})
    return {"history": history, "twin": twin, "provider": provider, "path": path, "comp": draw(st.sampled_from(["Event", "Todo"])), "start": start, "endspec": es,
            "alarms": alarms, "local_tz": local}


def streams(tier):
    n = 4000 if tier == "quick" else 40000
    return [Stream("components-with-alarms", "hyp", n, 16, cases)]


LEVEL_TEXT = ("Random components and alarm lists on three build paths are compared with an independent alarm-time model; the space "
              "(start kind x end spec x trigger kind x RELATED x REPEAT/DURATION x local zone x provider) is small enough that a few "
              "thousand cases cover every combination many times, but instants are sampled.")
