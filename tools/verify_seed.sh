#!/bin/sh
# usage: tools/verify_seed.sh <seed-dir with patch.diff demo.py meta.json> <ID> <name>
# Confirms, in a scratch copy outside /repo and /verif: demo passes on the clean tree, fails with the patch,
# the pinned suite still passes with the patch; then runs the quick check against the patched copy.
# Keeps the seed as /verif/seeded/<name>/ and records what was run in verified.json.
SD=$(readlink -f "$1"); ID=$2; NAME=$3
S=$(mktemp -d /tmp/seedv.XXXXXX); trap 'rm -rf "$S"' EXIT
mkdir -p "$S/clean" "$S/mut"
rsync -a --exclude .git --exclude __pycache__ /repo/ "$S/clean/"; (cd "$S/clean" && git -C /repo diff --quiet || echo "WARNING: /repo has uncommitted changes"); cp -r "$S/clean/." "$S/mut/"
(cd "$S/mut" && patch -p1 -s < "$SD/patch.diff") || { echo "PATCH DOES NOT APPLY to current /repo HEAD"; exit 3; }
(cd "$S" && PYTHONPATH="$S/clean/src" /venv/bin/python "$SD/demo.py" >"$S/demo_clean.out" 2>&1); dc=$?
(cd "$S" && PYTHONPATH="$S/mut/src" /venv/bin/python "$SD/demo.py" >"$S/demo_mut.out" 2>&1); dm=$?
/verif/tools/baseline.py "$S/mut" > "$S/suite.out" 2>&1; st=$?
cd /verif
VERIF_REPO="$S/mut" VERIF_NO_EVIDENCE=1 ./check "$ID" --tier quick > "$S/check.out" 2>&1; rc=$?
echo "demo_clean_exit=$dc demo_mutant_exit=$dm suite_exit=$st ($(tail -n1 "$S/suite.out" | cut -c1-100)) check_exit=$rc"
grep -E "^(VIOLATION|HARNESS|failure bucket)" "$S/check.out" | cut -c1-260 | head -8
if [ $dc -eq 0 ] && [ $dm -ne 0 ] && [ $st -eq 0 ]; then
  mkdir -p "seeded/$NAME" && cp "$SD/patch.diff" "$SD/demo.py" "seeded/$NAME/" && \
  /venv/bin/python - "$SD/meta.json" "seeded/$NAME/meta.json" "$ID" "$dc" "$dm" "$st" "$rc" "$(git -C /repo log --format=%h -1)" "$(grep -E '^VIOLATION' "$S/check.out" | head -3 | tr '\n' ';')" <<'PY'
import json,sys
src,dst,pid,dc,dm,st,rc,head,viol=sys.argv[1:10]
try: m=json.load(open(src))
except Exception: m={}
m["property"]=pid
m["confirmed_by_verify_seed"]={"repo_head":head,"demo_exit_clean_tree":int(dc),"demo_exit_with_patch":int(dm),
  "pinned_suite_all_stable_pass_with_patch":int(st)==0,"quick_check_exit_with_patch":int(rc),"quick_check_violations":viol,
  "what_was_run":["PYTHONPATH=<clean>/src python demo.py","PYTHONPATH=<patched>/src python demo.py","tools/baseline.py <patched>","VERIF_REPO=<patched> ./check %s --tier quick"%pid]}
json.dump(m,open(dst,"w"),indent=1)
PY
  echo "kept as seeded/$NAME (detected=$([ $rc -eq 1 ] && echo yes || echo NO))"
else
  echo "SEED REJECTED (demo/suite conditions not met)"; cat "$S/demo_clean.out" "$S/demo_mut.out" | tail -5
fi
