"""Child interpreter for the `python -O` configuration: usage  python -O opt_child.py <check module>; reads one JSON case on stdin,
prints JSON [[clause, signature, detail], ...] of what the module's judge() says in an interpreter without assert statements."""
import importlib, json, os, sys
HERE = os.path.dirname(os.path.dirname(os.path.abspath(__file__)))
sys.path[:0] = [os.path.join(os.environ.get("VERIF_REPO", "/repo"), "src"), HERE, os.path.join(HERE, ".deps")]
if not sys.flags.optimize:
    raise SystemExit("opt_child must run under python -O")
m = importlib.import_module("checks." + sys.argv[1])
case = json.load(sys.stdin)
case.pop("interp", None)
json.dump([[f.clause, f.signature, f.detail] for f in m.judge(case)], sys.stdout)
