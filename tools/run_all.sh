#!/bin/sh
# usage: tools/run_all.sh [tier] [seed]  -> runs every registered check sequentially, prints one line each
TIER=${1:-quick}; SEED=${2:-1}
cd "$(dirname "$0")/.."
for id in C01 C02 C03 C04 C05 C06 C07 C08 C09 C10 C11 C12 C13 C14 C15 C16 C17 C18 C19 C20; do
  s=$(date +%s)
  VERIF_SEED=$SEED ./check $id --tier $TIER > /tmp/runall.$id.log 2>&1; rc=$?
  e=$(date +%s)
  echo "$id rc=$rc $((e-s))s $(grep -E '^C[0-9]+ tier' /tmp/runall.$id.log | cut -c1-150) $(grep -c '^VIOLATION' /tmp/runall.$id.log) violations $(grep -c '^HARNESS' /tmp/runall.$id.log) harness-errors"
done
