#!/venv/bin/python
"""Run the repository's pinned suite (guard OFF) and compare with /root/.vp/BASELINE.json stable_pass.
usage: tools/baseline.py [repo_dir]   exit 0 iff every stable_pass test passes."""
import json, os, subprocess, sys, tempfile, xml.etree.ElementTree as ET
repo = sys.argv[1] if len(sys.argv) > 1 else "/repo"
base = json.load(open("/root/.vp/BASELINE.json"))
stable = set(base["stable_pass"])
with tempfile.TemporaryDirectory() as d:
    xmlp = os.path.join(d, "j.xml")
    env = dict(os.environ)
    env.pop("ICALENDAR_VERIF", None)
    env["PYTHONPATH"] = os.path.join(repo, "src")
    subprocess.run(["/venv/bin/python", "-m", "pytest", "-q", "-p", "no:cacheprovider", "--timeout=900",
                    "--continue-on-collection-errors", f"--junitxml={xmlp}"], cwd=repo, env=env,
                   stdout=subprocess.DEVNULL, stderr=subprocess.DEVNULL)
    passed = set()
    failed = set()
    for tc in ET.parse(xmlp).getroot().iter("testcase"):
        name = f"{tc.get('classname')}::{tc.get('name')}".replace(os.path.abspath(repo) + "/", "/repo/")
        bad = any(ch.tag in ("failure", "error", "skipped") for ch in tc)
        (failed if bad else passed).add(name)
missing = sorted(stable - passed)
print(f"passed={len(passed)} failed_or_skipped={len(failed)} stable_pass={len(stable)} missing_from_pass={len(missing)}")
for m in missing[:30]:
    print("  NOT PASSING:", m)
sys.exit(1 if missing else 0)
