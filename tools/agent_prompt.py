#!/venv/bin/python
"""Print the sub-agent prompt for seeding a property-breaking change (property text only; nothing from /verif)."""
import json, sys
pid = sys.argv[1].upper()
rnd = sys.argv[2] if len(sys.argv) > 2 else ""
round2 = rnd == "r2"
round3 = rnd == "r3"
round4 = rnd == "r4"
round5 = rnd == "r5"
round6 = rnd == "r6"
wt = f"/tmp/wt/{pid.lower()}" + rnd
p = next(json.loads(l) for l in open("/verif/properties.jsonl") if json.loads(l)["id"] == pid)
print(f"""You are helping to evaluate a verification effort by playing the role of a developer who introduces a subtle regression.

Project: the Python library `icalendar` (RFC 5545 iCalendar parser/generator). You have your OWN scratch git worktree of it at {wt} (source under {wt}/src/icalendar). Work ONLY inside {wt}. Do not read or touch /repo or /verif or any other directory outside {wt} (apart from running the interpreter /venv/bin/python).

Here is a semantic property the library is supposed to satisfy:

  Title: {p['title']}
  Statement: {p['statement']}
  Quantifier: {p['quantifier']['text']}
  Code anchored in: {', '.join(p['anchors']['files'])}

TASK: produce {"THREE" if round2 else "TWO"} different, independent changes ("mutants") to the library source under {wt}/src/icalendar (not to its tests) such that each one
  (a) BREAKS the property above (a clause of its statement becomes false for some inputs / histories / configurations),
  (b) still imports fine and the ENTIRE existing test suite still passes exactly as before.  Run it with:
        cd {wt} && PYTHONPATH={wt}/src /venv/bin/python -m pytest -q -p no:cacheprovider -x --deselect "src/icalendar/tests/test_issue_722_generate_vtimezone.py::test_we_can_identify_dateutil_timezones" --deselect "src/icalendar/tests/test_timezone_identification.py::test_can_identify_dateutil" 2>&1 | tail -5
      (about 40 s; the deselected tests already fail on the unchanged tree; everything else must stay green),
  (c) needs something SPECIFIC to manifest - an unusual input, a particular boundary (length, offset, character class, case variant), a multi-step sequence of API calls, a particular configuration (e.g. the pytz provider instead of zoneinfo), or two cooperating sites that each look harmless alone.  Do NOT produce a change that ordinary use would expose at once (e.g. breaking every call).  Make it look like a plausible refactoring / optimisation / "bug fix" a real developer might commit.
  (d) comes with a small stand-alone demonstration program that exits non-zero (assertion failure) WITH the change and exits 0 WITHOUT it, when run as
        PYTHONPATH={wt}/src /venv/bin/python demo.py

Procedure for each mutant k in {"(1, 2, 3)" if round2 else "(1, 2)"}:
  1. Start from a clean tree: `git -C {wt} checkout -- . `
  2. Edit the source, run the full suite as above and make sure it is still green.
  3. Write the demo, verify it FAILS with the change; then save the change with `mkdir -p {wt}/SEED && git -C {wt} diff -- src > {wt}/SEED/{{k}}.tmp.diff`, restore the clean tree with `git -C {wt} checkout -- src`, verify the demo PASSES on the clean tree, and re-apply the change with `git -C {wt} apply {wt}/SEED/{{k}}.tmp.diff`.  (Do NOT use `git stash`: the stash is shared between worktrees and other people work in sibling worktrees.)
  4. Save:  mkdir -p {wt}/SEED/{{k}} ; git -C {wt} diff -- src > {wt}/SEED/{{k}}/patch.diff ; the demo as {wt}/SEED/{{k}}/demo.py ; and {wt}/SEED/{{k}}/meta.json with keys: "property" ("{pid}"), "clause_broken" (which part of the statement), "what_it_needs_to_manifest", "why_tests_still_pass", "commands_run" (list of strings, with observed results).
  5. Restore the clean tree again (`git -C {wt} checkout -- .`) before the next mutant.  The mutants must touch different logic / break different clauses where possible.{" Prefer code paths AWAY from the most obvious function for this property: helper modules, type constructors, rarely used parameters, interactions between two modules, the second provider, error paths." if round2 else ""}{" Prefer changes whose effect only shows (1) after a SEQUENCE of operations on the same object or in the same process (caches, memoisation, shared mutable defaults, module-level state, objects reused between calls), or (2) only in ONE CONFIGURATION (the pytz provider, multiple=True, sorted=False, non-default arguments, str vs bytes input), or (3) only at the EDGES of the value types (extreme years, unusual but legal characters, empty or repeated values, boundary lengths)." if round3 else ""}{" Prefer changes whose effect only shows (1) through an ALTERNATIVE public entry point or code path for the same behaviour (another classmethod or constructor, item access vs. attribute access vs. add(), a component-specific subclass, copy()/equality/hash, str vs. bytes arguments, content_line()/content_lines(), walk()/property_items()), or (2) for only ONE component kind, property name, parameter name or value type among the many the library knows (e.g. VJOURNAL, VFREEBUSY, nested or unknown components; rarely used properties; one weekday, one month, one frequency), or (3) only for a COMBINATION of two features that are each fine alone (a parameter together with a value type, a time zone together with a list, folding together with multi-byte characters and quoting, two alarms, two rule parts), or (4) at an arithmetic boundary: an off-by-one in a count, length, index or comparison (< vs <=), a sign, zero, or an overflow into the next unit." if round4 else ""}{" Prefer changes that break one of the LESS PROMINENT clauses of the statement (its later sentences: error reporting, 'never fails', ordering, idempotence, 'adds nothing', 'only the documented errors', symmetry, the behaviour for unknown / non-standard names) rather than the headline clause; or that sit in rarely executed branches (except clauses, fallbacks, compatibility shims for other producers such as Thunderbird, Outlook or Google, Python-version or platform dependent constructs); or in code shared by several features such that only ONE consumer breaks." if round5 else ""}{" Prefer changes OUTSIDE the files the property is anchored in: the helper modules (tools.py, parser_tools.py, caselessdict.py, timezone/*.py, the Component base class) and, above all, the DECLARATIVE parts of the library - the tables and class attributes that configure behaviour (types_map / the TypesFactory entries, canonical_order, required / singletons / multiple / exclusive tuples, ignore_exceptions, WINDOWS_TO_OLSON, the equivalent-timezone lookup, regular-expression constants, default arguments) - where one changed entry silently alters one property name, one component kind or one zone.  Also welcome: a change of an exception type or message class in an error path, or of a default value of a keyword argument." if round6 else ""}

Finish with a short report: for each mutant the one-line description, what triggers it, and confirmation of (b) and (d) with the observed outputs.  If you cannot find a change that keeps the suite green, say so rather than weakening the requirements.""" + ("""

ADDITIONALLY (round 5): while reading the code you may notice inputs, histories or configurations for which the UNCHANGED tree ALREADY violates the property.  Do not fix them and do not build your mutants on them; list each at the end of your report under the heading 'UNCHANGED-TREE VIOLATIONS' with a reproducer of at most five lines of Python that you have actually run on the clean tree (show its output), and save them together as """ + wt + """/SEED/unchanged_tree.md.  Spend about a third of your effort on this hunt: try unusual but legal inputs, both time zone providers, the ends of every numeric and date range, empty values, repeated values, every component kind.""" if round5 else ""))
