#!/bin/sh
# usage: tools/mutant_run.sh <patch.diff> <ID> [tier]   -> runs ./check ID against a scratch copy of /repo with the patch applied.
# prints the check's verdict lines; exit code = the check's exit code.  Scratch copy is removed afterwards.
PATCH=$(readlink -f "$1"); ID=$2; TIER=${3:-quick}
S=$(mktemp -d /tmp/mut.XXXXXX)
trap 'rm -rf "$S"' EXIT
mkdir -p "$S/repo"
rsync -a --exclude .git --exclude __pycache__ --exclude docs /repo/ "$S/repo/" || exit 2
(cd "$S/repo" && patch -p1 -s < "$PATCH") || { echo "PATCH DOES NOT APPLY"; exit 3; }
cd "$(dirname "$0")/.."
VERIF_REPO="$S/repo" VERIF_NO_EVIDENCE=1 ./check "$ID" --tier "$TIER" > "$S/out" 2>&1; rc=$?
grep -E "^(VIOLATION|KNOWN-FINDING|HARNESS|failure bucket|C[0-9]+ tier)" "$S/out" | cut -c1-300
exit $rc
