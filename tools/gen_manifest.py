#!/venv/bin/python
"""Regenerate MANIFEST.json from the per-check metadata (checks/*.py: ID, TECHNIQUE, LEVEL_TEXT, LEVEL_NOTE)."""
import glob, importlib, json, os, sys
HERE = os.path.dirname(os.path.dirname(os.path.abspath(__file__)))
sys.path[:0] = ["/repo/src", HERE, os.path.join(HERE, ".deps")]
props = [json.loads(l) for l in open(os.path.join(HERE, "properties.jsonl"))]
checks, na = [], []
NOT_BUILT = json.load(open(os.path.join(HERE, "tools", "not_applicable.json")))
for p in props:
    pid = p["id"]
    mods = glob.glob(os.path.join(HERE, "checks", f"{pid.lower()}_*.py"))
    if not mods or pid in NOT_BUILT:
        na.append({"property_id": pid, "reason": NOT_BUILT.get(pid, "check not built yet (see DESIGN.md section 3 for the plan)")})
        continue
    m = importlib.import_module("checks." + os.path.basename(mods[0])[:-3])
    checks.append({
        "property_id": pid,
        "quick_cmd": f"./check {pid} --tier quick",
        "thorough_cmd": f"./check {pid} --tier thorough",
        "evidence_file": f"/verif/evidence/{pid}.json",
        "replay_cmd_template": f"./check {pid} --replay {{path}}",
        "engine": "vlib.runner",
        "level_claimed": {"category": "exploration", "text": m.LEVEL_TEXT, "design_ref": f"DESIGN.md section 3, {pid}"},
        "level_note": getattr(m, "LEVEL_NOTE", "Trusts: the harness's own reference models/oracles (vlib/, checks/), CPython, hypothesis, tzdata as installed. Generated search never establishes absence."),
        "technique": m.TECHNIQUE,
    })
man = {
    "version": 1,
    "setup_cmd": "./setup.sh",
    "hooks": {"guard": "ICALENDAR_VERIF", "enable": "no source hooks are needed: all observed state is reachable through the public API (checks import /repo/src from the working tree)",
              "baseline_off_cmd": "cd /repo && /venv/bin/python -m pytest -ra -q -p no:cacheprovider --timeout=900 --continue-on-collection-errors",
              "source_commits": [], "add_only": True},
    "engines": [{"name": "vlib.runner", "path": "/verif/vlib/runner.py", "serves_properties": [c["property_id"] for c in checks],
                 "kind_free_text": "sharded generated-input search (Hypothesis strategies + exhaustive finite sweeps, atheris in thorough tiers) against independent oracles; collect-then-shrink with root-cause buckets; known-finding regions"}],
    "checks": checks,
    "not_applicable": na,
    "notes": "VERIF_SEED selects the Hypothesis seeds (derived per stream and shard). Exit 2 = harness error (never a verdict). known_findings.json lists genuine defects: open ones print KNOWN-FINDING, fixed ones suppress nothing.",
}
json.dump(man, open(os.path.join(HERE, "MANIFEST.json"), "w"), indent=1)
print("checks:", [c["property_id"] for c in checks], "not_applicable:", [n["property_id"] for n in na])
