"""Child interpreter for C05's `python -O` configuration: reads one JSON case on stdin, prints JSON [[clause, signature, detail], ...]."""
import json, os, sys
HERE = os.path.dirname(os.path.dirname(os.path.abspath(__file__)))
sys.path[:0] = [os.path.join(os.environ.get("VERIF_REPO", "/repo"), "src"), HERE, os.path.join(HERE, ".deps")]
from checks import c05_contentline as m   # noqa: E402
case = json.load(sys.stdin)
case.pop("interp", None)
if not sys.flags.optimize:
    raise SystemExit("c05_child must run under python -O")
json.dump([[f.clause, f.signature, f.detail] for f in m.judge(case)], sys.stdout)
