#!/bin/sh
# usage: tools/seed_regressions.sh <seeded/NAME> ...  -> for each seed: run its property's quick check against a patched scratch copy and
# keep up to 3 shrunk failing cases as regressions/<ID>/seed-<NAME>-<n>.json (they pass on the unchanged tree and fail with the seed, so
# every later run replays them first, independent of the random seed).
cd "$(dirname "$0")/.."
for SD in "$@"; do
  NAME=$(basename "$SD")
  ID=$(/venv/bin/python -c "import json,sys;m=json.load(open('$SD/meta.json'));print(m.get('detected_by') or m['property'])")
  PATCH=$(readlink -f "$SD/patch.diff"); S=$(mktemp -d /tmp/seedreg.XXXXXX)
  rsync -a --exclude .git --exclude __pycache__ --exclude docs /repo/ "$S/repo/"
  (cd "$S/repo" && patch -p1 -s < "$PATCH") || { echo "$NAME: PATCH DOES NOT APPLY"; rm -rf "$S"; continue; }
  rm -f replays/$ID-*.json
  VERIF_REPO="$S/repo" VERIF_NO_EVIDENCE=1 ./check "$ID" --tier quick > "$S/out" 2>&1; rc=$?
  n=0
  mkdir -p regressions/$ID
  for f in $(ls -S -r replays/$ID-*.json 2>/dev/null | grep -v mutant-evidence | head -3); do
    # keep only cases that pass on the unchanged tree
    if ./check "$ID" --replay "$f" > /dev/null 2>&1; then
      n=$((n+1)); cp "$f" "regressions/$ID/seed-$NAME-$n.json"
    fi
  done
  echo "$NAME: check rc=$rc, kept $n regression case(s)"
  rm -rf "$S"
done
