#!/bin/sh
# usage: tools/at_commit.sh <repo-commit> <ID> [tier] -> run ./check ID against /repo as of <commit> (scratch worktree, removed afterwards)
C=$1; ID=$2; TIER=${3:-quick}
W=$(mktemp -d /tmp/atc.XXXXXX); rmdir "$W"
git -C /repo worktree add -q --detach "$W" "$C" || exit 2
cp /repo/src/icalendar/_version.py "$W/src/icalendar/_version.py" 2>/dev/null
cd "$(dirname "$0")/.."
VERIF_REPO="$W" VERIF_NO_EVIDENCE=1 ./check "$ID" --tier "$TIER" 2>&1 | grep -E "^(VIOLATION|HARNESS|failure bucket|C[0-9]+ tier)" | cut -c1-260
git -C /repo worktree remove --force "$W"
