"""Child interpreter for C10's hash-seed clause: reads JSON cases on stdin, prints JSON [{sorted, unsorted}] hex of the bytes."""
import json, os, sys
HERE = os.path.dirname(os.path.dirname(os.path.abspath(__file__)))
sys.path[:0] = [os.path.join(os.environ.get("VERIF_REPO", "/repo"), "src"), HERE, os.path.join(HERE, ".deps")]
from checks import c10_serialisation as m   # noqa: E402
variant = int(os.environ.get("VERIF_C10_VARIANT", "0"))
cases = json.load(sys.stdin)
idx = list(range(len(cases)))
if variant in (2, 3):
    idx.reverse()
out = [None] * len(cases)
for i in idx:
    try:
        out[i] = m.serialise_for_hashseed(cases[i], variant)
    except Exception as e:  # noqa: BLE001
        out[i] = {"error": f"{type(e).__name__}: {e}"}
json.dump(out, sys.stdout)
