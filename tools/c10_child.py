"""Child interpreter for C10's hash-seed clause: reads JSON cases on stdin, prints JSON [{sorted, unsorted}] hex of the bytes."""
import json, os, sys
HERE = os.path.dirname(os.path.dirname(os.path.abspath(__file__)))
sys.path[:0] = [os.path.join(os.environ.get("VERIF_REPO", "/repo"), "src"), HERE, os.path.join(HERE, ".deps")]
from checks import c10_serialisation as m   # noqa: E402
out = []
for case in json.load(sys.stdin):
    try:
        out.append(m.serialise_for_hashseed(case))
    except Exception as e:  # noqa: BLE001
        out.append({"error": f"{type(e).__name__}: {e}"})
json.dump(out, sys.stdout)
