"""Coverage-guided byte fuzzing driver (atheris / libFuzzer) with the property's own oracle inside the target.

usage: atheris_driver.py <check module> <outdir> [libFuzzer args...]
Every input that makes judge() report a failure is saved once per signature as a JSON case in <outdir>; the target never
crashes on an oracle failure (collect mode), so the campaign continues behind shallow defects."""
import base64, hashlib, json, os, sys
HERE = os.path.dirname(os.path.dirname(os.path.abspath(__file__)))
REPO = os.environ.get("VERIF_REPO", "/repo")
sys.path[:0] = [os.path.join(REPO, "src"), HERE, os.path.join(HERE, ".deps")]
import atheris  # noqa: E402

modname, outdir = sys.argv[1], sys.argv[2]
with atheris.instrument_imports(include=["icalendar"]):
    import icalendar  # noqa: F401,E402
import importlib  # noqa: E402
from vlib import runner  # noqa: E402
mod = importlib.import_module(modname)
seen = set()
stats = {"execs": 0, "failing_inputs": 0}


def TestOneInput(data: bytes):
    stats["execs"] += 1
    if len(data) > 8192:
        return
    case = mod.raw_case(data)
    try:
        fails = runner.judge_guarded(mod, case, 10.0)
    except Exception as e:  # harness problem: keep going, record
        fails = [runner.Failure("harness", "harness/" + type(e).__name__, repr(e))]
    for f in fails:
        stats["failing_inputs"] += 1
        if f.signature in seen:
            continue
        seen.add(f.signature)
        h = hashlib.sha1(f.signature.encode()).hexdigest()[:12]
        with open(os.path.join(outdir, f"{h}.json"), "w") as fh:
            json.dump({"signature": f.signature, "clause": f.clause, "detail": f.detail[:500], "case": case}, fh)
    if stats["execs"] % 2000 == 0:
        with open(os.path.join(outdir, "stats.json"), "w") as fh:
            json.dump(stats, fh)


atheris.Setup([sys.argv[0]] + sys.argv[3:], TestOneInput)
atheris.Fuzz()
