"""atheris campaigns as a 'custom' stream: run the driver in a child process, then feed every saved failing input through the
normal collector (so attribution to known findings, bucketing, shrinking and replay work as for generated cases)."""
import glob
import json
import os
import shutil
import subprocess
import sys
import tempfile

from vlib.runner import VERIF, REPO

DICT = ['"BEGIN:"', '"END:"', '"VCALENDAR"', '"VEVENT"', '"VTODO"', '"VTIMEZONE"', '"STANDARD"', '"DAYLIGHT"', '"VALARM"', '"VFREEBUSY"', '"DTSTART"', '"DTEND"',
        '"RRULE:FREQ="', '"TZID="', '"TZID:"', '"TZOFFSETFROM:"', '"TZOFFSETTO:"', '"FREEBUSY:"', '"RDATE"', '"EXDATE"', '"VALUE=DATE"', '"VALUE=PERIOD"', '"\\x0d\\x0a"',
        '"\\x0d\\x0a "', '"20200101T000000Z"', '"PT1H"', '"/"', '";"', '":"', '"\\\\"', '"\\""', '"%2C"', '"BYDAY=-1SU"', '"UNTIL="', '"+0100"']


def campaign(modname, ctx, seconds, use_corpus=True):
    col = ctx["collector"]
    try:
        import atheris  # noqa: F401
    except ImportError:
        col.classes["atheris-unavailable"] += 1
        return
    work = tempfile.mkdtemp(prefix="verif-atheris-")
    try:
        out, corpus = os.path.join(work, "out"), os.path.join(work, "corpus")
        os.makedirs(out)
        os.makedirs(corpus)
        if use_corpus:
            for i, p in enumerate(sorted(glob.glob(os.path.join(VERIF, "corpus", "*", "*.ics")))):
                if os.path.getsize(p) < 6000:
                    shutil.copy(p, os.path.join(corpus, f"seed{i}.ics"))
        dpath = os.path.join(work, "ical.dict")
        with open(dpath, "w") as f:
            f.write("\n".join(DICT) + "\n")
        env = dict(os.environ, VERIF_REPO=REPO, PYTHONHASHSEED="0")
        cmd = [sys.executable, os.path.join(VERIF, "tools", "atheris_driver.py"), modname, out, corpus, f"-max_total_time={int(seconds)}",
               f"-seed={ctx['seed'] % (2 ** 31) or 1}", f"-dict={dpath}", "-max_len=4096", "-timeout=30", "-print_final_stats=1", "-verbosity=0"]
        p = subprocess.run(cmd, env=env, stdout=subprocess.PIPE, stderr=subprocess.STDOUT, timeout=seconds + 300)
        execs = 0
        for line in p.stdout.decode("utf-8", "replace").splitlines():
            if "number_of_executed_units" in line:
                try:
                    execs = int(line.split(":")[-1])
                except ValueError:
                    pass
        if not execs and os.path.exists(os.path.join(out, "stats.json")):
            execs = json.load(open(os.path.join(out, "stats.json")))["execs"]
        col.evaluations += execs
        col.classes["atheris-execs" + ("-with-corpus" if use_corpus else "-empty-corpus")] += execs
        col.classes["atheris-campaigns"] += 1
        for fpath in sorted(glob.glob(os.path.join(out, "*.json"))):
            if fpath.endswith("stats.json"):
                continue
            col.run_case(json.load(open(fpath))["case"])     # re-judged here: buckets / attribution / samples as usual
    finally:
        shutil.rmtree(work, ignore_errors=True)
