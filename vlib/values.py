"""JSON encoding of Python date/time values used by API-level checks.

  {"k": "date", "v": [y, m, d]}
  {"k": "naive", "v": [y, m, d, H, M, S]}
  {"k": "utc", "v": [...]}
  {"k": "zoned", "v": [...], "tz": "Europe/Berlin", "fold": 0}     (zone object of the *active* provider unless "src" given:
                                                                    "zoneinfo" | "pytz" | "dateutil")
  {"k": "td", "d": days, "s": seconds}
  {"k": "none"}
"""
from datetime import date, datetime, timedelta, timezone
import zoneinfo

import dateutil.tz
import pytz
from hypothesis import strategies as st

from icalendar.timezone import tzp

ZONES = ["Europe/Berlin", "America/New_York", "Asia/Kolkata", "Australia/Lord_Howe", "America/Sao_Paulo", "Pacific/Auckland", "Etc/UTC", "Etc/GMT+5", "Zulu"]


class _Day(date):
    """a subclass of date that is not a datetime (pendulum.Date, freezegun's FakeDate ... are such types)"""


class _Moment(datetime):
    """a subclass of datetime"""


def pytz_local(tz, naive, fold=0):
    """the pytz value for a wall time, in the reading of RFC 5545 3.3.5 / PEP 495: a wall time that occurs twice is its first occurrence
    (fold=1: the second), one that does not occur takes the offset before the gap (fold=1: the one after it)"""
    a, b = tz.localize(naive, is_dst=True), tz.localize(naive, is_dst=False)
    if a.utcoffset() == b.utcoffset():
        return a
    try:
        return tz.localize(naive, is_dst=None)
    except pytz.AmbiguousTimeError:
        return max(a, b) if fold else min(a, b)
    except pytz.NonExistentTimeError:
        return min(a, b) if fold else max(a, b)


def dec(x, provider=None):
    k = x["k"]
    if k == "none":
        return None
    if k == "date":
        return _Day(*x["v"]) if x.get("sub") else date(*x["v"])
    if k == "naive":
        return _Moment(*x["v"]) if x.get("sub") else datetime(*x["v"])
    if k == "utc":
        src = x.get("src") or (provider or tzp.name)
        if src == "pytz":
            return pytz.utc.localize(datetime(*x["v"]))
        if src == "stdlib":
            return datetime(*x["v"], tzinfo=timezone.utc)
        return datetime(*x["v"], tzinfo=zoneinfo.ZoneInfo("UTC"))
    if k == "zoned":
        src = x.get("src") or (provider or tzp.name)
        naive = datetime(*x["v"])
        if src == "pytz":
            if "is_dst" in x:
                return pytz.timezone(x["tz"]).localize(naive, is_dst=bool(x["is_dst"]))
            return pytz_local(pytz.timezone(x["tz"]), naive, x.get("fold", 0))
        if src == "dateutil":
            return naive.replace(tzinfo=dateutil.tz.gettz(x["tz"]), fold=x.get("fold", 0))
        return naive.replace(tzinfo=zoneinfo.ZoneInfo(x["tz"]), fold=x.get("fold", 0))
    if k == "fixed":      # a tzinfo without any zone id: datetime.timezone fixed offset (minutes)
        return datetime(*x["v"], tzinfo=timezone(timedelta(minutes=x["off"])))
    if k == "pfixed":     # pytz.FixedOffset: an aware value whose tzinfo has neither a zone id nor a name
        return datetime(*x["v"], tzinfo=pytz.FixedOffset(x["off"]))
    if k == "td":
        return timedelta(days=x["d"], seconds=x["s"])
    raise ValueError(k)


def is_date_only(x):
    return x["k"] == "date"


def is_dt(x):
    return x["k"] in ("naive", "utc", "zoned")


def aware(x):
    return x["k"] in ("utc", "zoned")


# ------------------------------------------------------------------ strategies
_ymd = st.tuples(st.integers(1995, 2035), st.integers(1, 12), st.integers(1, 28))
_hms = st.one_of(st.tuples(st.integers(0, 23), st.integers(0, 59), st.integers(0, 59)),
                 st.sampled_from([(0, 0, 0), (2, 30, 0), (1, 59, 59), (23, 59, 59), (12, 0, 0)]))

s_date = _ymd.map(lambda t: {"k": "date", "v": list(t)})
s_naive = st.tuples(_ymd, _hms).map(lambda t: {"k": "naive", "v": list(t[0]) + list(t[1])})
s_utc = st.tuples(_ymd, _hms).map(lambda t: {"k": "utc", "v": list(t[0]) + list(t[1])})
s_zoned = st.tuples(_ymd, _hms, st.sampled_from(ZONES)).map(lambda t: {"k": "zoned", "v": list(t[0]) + list(t[1]), "tz": t[2]})
# wall times near DST changes of Europe/Berlin and America/New_York
s_zoned_dst = st.tuples(st.sampled_from([(2021, 3, 28), (2021, 10, 31), (2021, 3, 14), (2021, 11, 7), (2021, 3, 27), (2021, 10, 30)]),
                        st.sampled_from([(0, 30, 0), (1, 30, 0), (2, 30, 0), (3, 30, 0), (12, 0, 0), (23, 0, 0)]),
                        st.sampled_from(["Europe/Berlin", "America/New_York"])
                        ).map(lambda t: {"k": "zoned", "v": list(t[0]) + list(t[1]), "tz": t[2]})
s_datetime = st.one_of(s_naive, s_utc, s_zoned, s_zoned_dst)
s_start = st.one_of(s_date, s_naive, s_utc, s_zoned, s_zoned_dst)
s_td_days = st.integers(-5, 30).map(lambda d: {"k": "td", "d": d, "s": 0})
s_td_time = st.tuples(st.integers(-2, 3), st.sampled_from([1, 60, 900, 3600, 5400, 86399, 43200])).map(lambda t: {"k": "td", "d": t[0], "s": t[1]})
s_td = st.one_of(s_td_days, s_td_time, st.just({"k": "td", "d": 0, "s": 0}))
