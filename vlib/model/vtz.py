"""Reference interpreter for VTIMEZONE definitions per RFC 5545 3.6.5 onset rules (no dateutil, no icalendar).

definition := {"tzid": str, "obs": [observance...]}
observance := {"kind": "STANDARD"|"DAYLIGHT", "from": seconds, "to": seconds, "name": str|None,
               "start": [y,m,d,H,M,S],                       # DTSTART (local, in the 'from' offset)
               "rdates": [[y,m,d,H,M,S], ...]?,
               "rrule": {"bymonth": m, "byday": [n, wd], "until": [y,m,d,H,M,S] (UTC) | None, "count": int | None, "interval": int?}?}
An onset is its local DTSTART/recurrence minus TZOFFSETFROM.
"""
import calendar
from datetime import datetime, timedelta

HORIZON_YEAR = 2037
WD = ["MO", "TU", "WE", "TH", "FR", "SA", "SU"]


def nth_weekday(year, month, n, wd):
    """date of the n-th (n>0) or last (n=-1, -2) weekday wd (0=MO) of the month, or None"""
    cal = calendar.monthcalendar(year, month)
    days = [w[wd] for w in cal if w[wd] != 0]
    try:
        return days[n - 1] if n > 0 else days[n]
    except IndexError:
        return None


def local_onsets(ob, horizon_year=HORIZON_YEAR):
    start = datetime(*ob["start"])
    out = [start]
    for r in ob.get("rdates") or []:
        out.append(datetime(*r))
    rr = ob.get("rrule")
    if rr:
        n, wd = rr["byday"]
        until = datetime(*rr["until"]) if rr.get("until") else None
        count = rr.get("count")
        interval = rr.get("interval") or 1
        occ = []
        y = start.year
        while y <= horizon_year:
            d = nth_weekday(y, rr["bymonth"], n, WD.index(wd)) if (y - start.year) % interval == 0 else None
            if d is not None:
                t = datetime(y, rr["bymonth"], d, start.hour, start.minute, start.second)
                if t >= start:
                    if until is not None and t - timedelta(seconds=ob["from"]) > until:
                        break
                    occ.append(t)
                    if count is not None and len(occ) >= count:
                        break
            y += 1
        out = sorted(set(out) | set(occ))
    ex = {datetime(*e) for e in ob.get("exdates") or []}      # EXDATE removes recurrences (not the DTSTART itself in dateutil; we
    return sorted(t for t in set(out) if t not in ex or t == start)   # keep DTSTART, which RFC 5545 also counts as first onset)


def utc_onsets(defn, horizon_year=HORIZON_YEAR):
    """-> sorted list of (utc onset, observance index)"""
    res = []
    for i, ob in enumerate(defn["obs"]):
        for t in local_onsets(ob, horizon_year):
            res.append((t - timedelta(seconds=ob["from"]), i))
    res.sort()
    return res


def lookup(defn, onsets, t_utc):
    """observance index in effect at the naive UTC instant, or None before the first onset"""
    best = None
    for t, i in onsets:
        if t <= t_utc:
            best = i
        else:
            break
    return best


def fmt_off(sec):
    sign = "-" if sec < 0 else "+"
    sec = abs(sec)
    h, r = divmod(sec, 3600)
    m, s = divmod(r, 60)
    return f"{sign}{h:02}{m:02}" + (f"{s:02}" if s else "")


def fmt_dt(v, z=False):
    return f"{v[0]:04}{v[1]:02}{v[2]:02}T{v[3]:02}{v[4]:02}{v[5]:02}" + ("Z" if z else "")


def render(defn):
    lines = ["BEGIN:VTIMEZONE", f"TZID:{defn['tzid']}"]
    for ob in defn["obs"]:
        lines.append(f"BEGIN:{ob['kind']}")
        lines.append(f"DTSTART:{fmt_dt(ob['start'])}")
        lines.append(f"TZOFFSETFROM:{fmt_off(ob['from'])}")
        lines.append(f"TZOFFSETTO:{fmt_off(ob['to'])}")
        if ob.get("name"):
            lines.append(f"TZNAME:{ob['name']}")
        if ob.get("rdates"):
            lines.append("RDATE:" + ",".join(fmt_dt(r) for r in ob["rdates"]))
        rr = ob.get("rrule")
        if rr:
            n, wd = rr["byday"]
            s = f"RRULE:FREQ=YEARLY;BYMONTH={rr['bymonth']};BYDAY={n}{wd}"
            if rr.get("until"):
                s += ";UNTIL=" + fmt_dt(rr["until"], True)
            if rr.get("count"):
                s += f";COUNT={rr['count']}"
            if rr.get("interval"):
                s += f";INTERVAL={rr['interval']}"
            lines.append(s)
        lines.append(f"END:{ob['kind']}")
    lines.append("END:VTIMEZONE")
    return lines
