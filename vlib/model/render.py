"""Own RFC 5545 value/line renderer for JSON-encoded values (vlib/values.py); shares no code with icalendar."""
from datetime import timedelta


def fmt_date(v):
    return f"{v[0]:04}{v[1]:02}{v[2]:02}"


def fmt_dt(v, z=False):
    return f"{v[0]:04}{v[1]:02}{v[2]:02}T{v[3]:02}{v[4]:02}{v[5]:02}" + ("Z" if z else "")


def fmt_dur_td(td: timedelta):
    sign = ""
    if td < timedelta(0):
        sign, td = "-", -td
    d, s = td.days, td.seconds
    h, r = divmod(s, 3600)
    m, sec = divmod(r, 60)
    if s == 0:
        if d % 7 == 0 and d:
            return f"{sign}P{d // 7}W"
        return f"{sign}P{d}D"
    t = "T" + (f"{h}H" if h else "") + (f"{m}M" if (m or (h and sec)) else "") + (f"{sec}S" if sec else "")
    return f"{sign}P" + (f"{d}D" if d else "") + t


def fmt_dur(x):
    return fmt_dur_td(timedelta(days=x["d"], seconds=x["s"]))


def prop_line(name, x, extra_params=""):
    """content line for a date/date-time/duration JSON value with the parameters RFC 5545 requires"""
    k = x["k"]
    if k == "date":
        return f"{name}{extra_params};VALUE=DATE:{fmt_date(x['v'])}"
    if k == "naive":
        return f"{name}{extra_params}:{fmt_dt(x['v'])}"
    if k == "utc":
        return f"{name}{extra_params}:{fmt_dt(x['v'], True)}"
    if k == "zoned":
        return f"{name}{extra_params};TZID={x['tz']}:{fmt_dt(x['v'])}"
    if k == "td":
        return f"{name}{extra_params}:{fmt_dur(x)}"
    raise ValueError(k)


def fold(line, at=60):
    out = []
    while len(line.encode()) > 74:
        cut = at
        out.append(line[:cut])
        line = " " + line[cut:]
    out.append(line)
    return "\r\n".join(out)
