"""Reference content-line parser, written from RFC 5545 section 3.1 (shares no code with icalendar).

    contentline = name *(";" param) ":" value CRLF
    param       = param-name "=" param-value *("," param-value)
    param-value = paramtext / quoted-string
    paramtext   = *SAFE-CHAR          ; any char except CTLs (HTAB allowed), DQUOTE, ";", ":", ","
    quoted-string = DQUOTE *QSAFE-CHAR DQUOTE   ; any char except CTLs (HTAB allowed) and DQUOTE

No backslash handling in parameters (RFC 5545 has none), value returned raw.
"""
import re


class LineSyntaxError(ValueError):
    pass


_NAME = re.compile(r"[A-Za-z0-9-]+")


def _is_ctl(ch):
    o = ord(ch)
    return (o < 0x20 and ch != "\t") or o == 0x7F


def parse_line(line: str):
    """-> (name, [(param_name, [values], [was_quoted])], raw_value)"""
    m = _NAME.match(line)
    if not m:
        raise LineSyntaxError("no name")
    name = m.group(0)
    i = m.end()
    params = []
    n = len(line)
    while i < n and line[i] == ";":
        i += 1
        m = _NAME.match(line, i)
        if not m:
            raise LineSyntaxError(f"bad param name at {i}")
        pname = m.group(0)
        i = m.end()
        if i >= n or line[i] != "=":
            raise LineSyntaxError(f"missing = at {i}")
        i += 1
        values, quoted = [], []
        while True:
            if i < n and line[i] == '"':
                j = line.find('"', i + 1)
                if j < 0:
                    raise LineSyntaxError("unterminated quote")
                v = line[i + 1:j]
                if any(_is_ctl(c) for c in v):
                    raise LineSyntaxError("CTL in quoted-string")
                values.append(v)
                quoted.append(True)
                i = j + 1
            else:
                j = i
                while j < n and line[j] not in '";:,' and not _is_ctl(line[j]):
                    j += 1
                values.append(line[i:j])
                quoted.append(False)
                i = j
            if i < n and line[i] == ",":
                i += 1
                continue
            break
        params.append((pname, values, quoted))
    if i >= n or line[i] != ":":
        raise LineSyntaxError(f"expected ':' at {i}: {line[i:i+10]!r}")
    return name, params, line[i + 1:]


def unfold(raw: bytes):
    """serialised bytes -> list of logical lines (str), my own unfolding"""
    text = raw.decode("utf-8")
    phys = text.split("\r\n")
    if phys and phys[-1] == "":
        phys.pop()
    out = []
    for ln in phys:
        if ln[:1] in (" ", "\t") and out:
            out[-1] += ln[1:]
        else:
            out.append(ln)
    return out


def parse_params_text(text: str):
    """parse a bare parameter string 'A=b;C="d,e",f' with the same grammar"""
    name, params, value = parse_line("X;" + text + ":")
    if value != "":
        raise LineSyntaxError("trailing data")
    return params
