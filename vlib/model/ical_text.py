"""Own RFC 5545 renderer for abstract trees (vlib/trees.py JSON spec).  Shares no code with icalendar.

The tree is the ground truth for what the rendered text denotes.
"""
from vlib.model import render as R


def esc_text(s: str) -> str:
    return s.replace("\\", "\\\\").replace(";", "\\;").replace(",", "\\,").replace("\r\n", "\\n").replace("\n", "\\n")


def quote_param(v: str, force=False) -> str:
    v = v.replace('"', "'")
    if force or any(c in v for c in ",;:"):
        return '"' + v + '"'
    return v


def fmt_float(x: float) -> str:
    s = repr(float(x))
    if "e" in s or "E" in s:
        from decimal import Decimal
        s = format(Decimal(s), "f")
    return s


def fmt_offset(sec: int) -> str:
    sign = "-" if sec < 0 else "+"
    sec = abs(sec)
    h, r = divmod(sec, 3600)
    m, s = divmod(r, 60)
    return f"{sign}{h:02}{m:02}" + (f"{s:02}" if s else "")


def value_text(spec):
    """-> (text, derived params dict)"""
    k = spec["k"]
    if k == "text":
        return esc_text(spec["v"]), {}
    if k in ("uri", "caladdr"):
        return spec["v"], {}
    if k == "int":
        return str(spec["v"]), {}
    if k == "float":
        return fmt_float(spec["v"]), {}
    if k == "bool":
        return "TRUE" if spec["v"] else "FALSE", {}
    if k == "date":
        return R.fmt_date(spec["v"]), {"VALUE": "DATE"}
    if k == "naive":
        return R.fmt_dt(spec["v"]), {}
    if k == "utc":
        return R.fmt_dt(spec["v"], True), {}
    if k == "zoned":
        return R.fmt_dt(spec["v"]), {"TZID": spec["tz"]}
    if k == "td":
        return R.fmt_dur(spec), {}
    if k == "period":
        st, p = value_text(spec["start"])
        if "end" in spec:
            en, _ = value_text(spec["end"])
        else:
            en = R.fmt_dur(spec["dur"]).lstrip("+")
        p = dict(p)
        p.pop("VALUE", None)
        p["VALUE"] = "PERIOD"
        return f"{st}/{en}", p
    if k == "recur":
        parts = []
        items = list(spec["v"].items())
        items.sort(key=lambda kv: (kv[0].upper() != "RSCALE", kv[0].upper() != "FREQ"))
        for kk, vv in items:
            vs = vv if isinstance(vv, list) else [vv]
            outs = []
            for x in vs:
                if isinstance(x, dict):
                    outs.append(value_text(x)[0])
                else:
                    outs.append(str(x))
            parts.append(f"{kk.upper()}=" + ",".join(outs))
        return ";".join(parts), {}
    if k == "geo":
        return f"{fmt_float(spec['v'][0])};{fmt_float(spec['v'][1])}", {}
    if k == "offset":
        return fmt_offset(spec["s"]), {}
    if k == "cats":
        return ",".join(esc_text(x) for x in spec["v"]), {}
    if k in ("dates", "periods"):
        texts, params = [], {}
        for d in spec["v"]:
            t, p = value_text(d)
            texts.append(t)
            params.update(p)
        return ",".join(texts), params
    raise ValueError(k)


def prop_line(p, default_value=None, force_quote=False):
    """content line for [name, spec, params?]; VALUE is omitted when it names the property's default type"""
    name, spec = p[0], p[1]
    user = p[2] if len(p) > 2 and p[2] else {}
    text, derived = value_text(spec)
    if name.upper() == "FREEBUSY":
        derived = {k: v for k, v in derived.items() if k != "VALUE"}
    if default_value is not None and derived.get("VALUE") == default_value:
        derived = {k: v for k, v in derived.items() if k != "VALUE"}
    params = []
    for k, v in derived.items():
        if k.upper() not in {u.upper() for u in user}:
            params.append((k, v))
    for k, v in user.items():
        params.append((k, v))
    out = name
    for k, v in params:
        vs = v if isinstance(v, list) else [v]
        out += ";" + k + "=" + ",".join(quote_param(x, force_quote) for x in vs)
    return out + ":" + text


DEFAULT_VALUE = {"FREEBUSY": "PERIOD"}


def render_lines(tree, begin="BEGIN", end="END", force_quote=False):
    lines = [f"{begin}:{tree['c']}"]
    for p in tree["p"]:
        lines.append(prop_line(p, DEFAULT_VALUE.get(p[0].upper()), force_quote))
    for s in tree["s"]:
        lines += render_lines(s, begin, end, force_quote)
    lines.append(f"{end}:{tree['c']}")
    return lines


def fold_line(line: str, cuts, ws=" "):
    """insert CRLF + SP/TAB at the given character positions (between characters, never at 0)"""
    cuts = sorted({c % len(line) for c in cuts if len(line) > 1 and c % len(line) != 0})
    out, prev = [], 0
    for i, c in enumerate(cuts):
        out.append(line[prev:c])
        prev = c
    out.append(line[prev:])
    sep = []
    res = out[0]
    for j, seg in enumerate(out[1:]):
        w = ws[j % len(ws)]
        res += "\r\n" + w + seg
    return res


def render(tree, folds=None, eol="\r\n", max_octets=75, force_quote=False, fold_ws=" "):
    """-> str; lines longer than max_octets are folded at safe positions, extra folds per `folds` (list of ints)"""
    out = []
    for i, ln in enumerate(render_lines(tree, force_quote=force_quote)):
        cuts = []
        # mandatory folding: every <= 60 characters while the UTF-8 length exceeds the limit
        if len(ln.encode("utf-8")) > max_octets:
            step = 18 if any(ord(c) > 127 for c in ln) else 60
            cuts = list(range(step, len(ln), step))
        if folds:
            k = folds[i % len(folds)]
            if k:
                cuts.append(k)
        out.append(fold_line(ln, cuts, fold_ws) if cuts else ln)
    text = "\r\n".join(out) + "\r\n"
    if eol != "\r\n":
        text = text.replace("\r\n", eol)
    return text
