"""Access to the system under test + per-case reset of its process-global state."""
import icalendar
from icalendar import vUTCOffset
from icalendar.timezone import tzp
from icalendar.cal import types_factory

_TYPES_SNAPSHOT = dict(types_factory.types_map)
PROVIDERS = ("zoneinfo", "pytz")


def reset(provider="zoneinfo"):
    """Reset process-global state: provider (also empties the VTIMEZONE cache), flags, type map."""
    tzp.use(provider)
    vUTCOffset.ignore_exceptions = False
    tm = types_factory.types_map
    if dict(tm) != _TYPES_SNAPSHOT:
        tm.clear()
        tm.update(_TYPES_SNAPSHOT)
