"""Abstract component trees (JSON) -> icalendar objects through the public API; strategies; extraction.

tree  := {"c": component name, "p": [[prop name, valspec, {param: value}?], ...], "s": [tree, ...]}
valspec: see dec_value (text/int/float/bool/date/naive/utc/zoned/td/period/recur/geo/offset/uri/caladdr/cats/dates/periods)
"""
from datetime import date, datetime, time, timedelta

from hypothesis import strategies as st

from icalendar.cal import Component, component_factory
from icalendar.prop import vRecur

from vlib import values as V

KNOWN_COMPONENTS = ["VCALENDAR", "VEVENT", "VTODO", "VJOURNAL", "VFREEBUSY", "VTIMEZONE", "STANDARD", "DAYLIGHT", "VALARM"]

# RFC 5545 property table (own transcription of sections 3.7-3.8 + RFC 9074): name -> (default kind, alternates)
RFC_PROPS = {
    "CALSCALE": ("text", ()), "METHOD": ("text", ()), "PRODID": ("text", ()), "VERSION": ("text", ()),
    "ATTACH": ("uri", ("binary",)), "CATEGORIES": ("cats", ()), "CLASS": ("text", ()), "COMMENT": ("text", ()),
    "DESCRIPTION": ("text", ()), "GEO": ("geo", ()), "LOCATION": ("text", ()), "PERCENT-COMPLETE": ("int", ()),
    "PRIORITY": ("int", ()), "RESOURCES": ("text", ()), "STATUS": ("text", ()), "SUMMARY": ("text", ()),
    "COMPLETED": ("utc", ()), "DTEND": ("datetime", ("date",)), "DUE": ("datetime", ("date",)), "DTSTART": ("datetime", ("date",)),
    "DURATION": ("td", ()), "FREEBUSY": ("period", ()), "TRANSP": ("text", ()),
    "TZID": ("text", ()), "TZNAME": ("text", ()), "TZOFFSETFROM": ("offset", ()), "TZOFFSETTO": ("offset", ()), "TZURL": ("uri", ()),
    "ATTENDEE": ("caladdr", ()), "CONTACT": ("text", ()), "ORGANIZER": ("caladdr", ()), "RECURRENCE-ID": ("datetime", ("date",)),
    "RELATED-TO": ("text", ()), "URL": ("uri", ()), "UID": ("text", ()),
    "EXDATE": ("dates", ("dates-date",)), "RDATE": ("dates", ("dates-date", "periods")), "RRULE": ("recur", ()),
    "EXRULE": ("recur", ()),      # RFC 2445, deprecated by RFC 5545 but typed by the library and still written by producers
    "ACTION": ("text", ()), "REPEAT": ("int", ()), "TRIGGER": ("td", ("utc",)), "ACKNOWLEDGED": ("utc", ()),
    "CREATED": ("utc", ()), "DTSTAMP": ("utc", ()), "LAST-MODIFIED": ("utc", ()), "SEQUENCE": ("int", ()),
    "REQUEST-STATUS": ("text", ()),
}
MULTI_OK = ["ATTACH", "ATTENDEE", "COMMENT", "CONTACT", "EXDATE", "RDATE", "RRULE", "EXRULE", "RELATED-TO", "RESOURCES", "CATEGORIES", "FREEBUSY",
            "DESCRIPTION", "TZNAME", "REQUEST-STATUS"]


def dec_value(x, provider=None):
    k = x["k"]
    if k in ("date", "naive", "utc", "zoned", "td", "none", "fixed", "pfixed"):
        return V.dec(x, provider)
    if k in ("text", "uri", "caladdr"):
        return x["v"]
    if k == "int":
        return int(x["v"])
    if k == "float":
        return float(x["v"])
    if k == "bool":
        return bool(x["v"])
    if k == "period":
        start = V.dec(x["start"], provider)
        return (start, V.dec(x["end"], provider)) if "end" in x else (start, V.dec(x["dur"], provider))
    if k == "recur":
        d = {}
        for kk, vv in x["v"].items():
            if kk.upper() == "UNTIL":
                vv = [V.dec(u, provider) for u in (vv if isinstance(vv, list) else [vv])]
            d[kk] = vv
        return d
    if k == "geo":
        return (float(x["v"][0]), float(x["v"][1]))
    if k == "offset":
        return timedelta(seconds=x["s"])
    if k == "cats":
        return list(x["v"])
    if k == "dates":
        return [V.dec(d, provider) for d in x["v"]]
    if k == "periods":
        return [dec_value(p, provider) for p in x["v"]]
    if k == "mixed":       # one list holding values of several kinds (date, date-time, period): accepted by add(); used by C10 only
        return [dec_value(p, provider) if p["k"] == "period" else V.dec(p, provider) for p in x["v"]]
    raise ValueError(k)


import copy as _copy

ARG_MUTATIONS = []     # filled by build(): argument objects that a library call changed in place (read and emptied by the checks)


def _plain(x):
    return repr(x)


def new_component(name):
    cls = component_factory.get(name.upper())
    if cls is None:
        c = Component()
        c.name = name.upper()
        return c
    return cls()


def build(tree, provider=None, order=None, into=None):
    """-> component; `into` (list) receives the built components in pre-order."""
    c = new_component(tree["c"])
    if into is not None:
        into.append(c)
    calls = []        # [name, [specs], params]: a property flagged {"join": true} (4th element) rides in the add() call of the
    for p in tree["p"]:   # latest earlier call of the same name as one more element of a list value: add(name, [v1, v2])
        name, spec = p[0], p[1]
        params = p[2] if len(p) > 2 and p[2] else None
        if len(p) > 3 and p[3] and p[3].get("typed") and spec["k"] in ("text", "uri", "caladdr", "int"):
            calls.append([name, [spec], params, p[3]["typed"]])
            continue
        if len(p) > 3 and p[3] and p[3].get("join") and not params:
            prev = next((cl for cl in reversed(calls) if cl[0].upper() == name.upper() and cl[2] is None and len(cl) == 3), None)
            if prev is not None:
                prev[1].append(spec)
                continue
        calls.append([name, [spec], params])
    for name, specs, params, *typed in calls:
        if typed:
            # the value is handed over as a value object of the library (add() documents that it keeps those) - of the class the
            # property takes, or of an application's subclass of it (class Attendee(vCalAddress)) - carrying its own parameters
            from icalendar.parser import Parameters
            from icalendar.cal import types_factory
            cls = types_factory.for_property(name)
            K = cls if typed[0] == "exact" else type("My" + cls.__name__, (cls,), {})
            obj = K(dec_value(specs[0], provider))
            obj.params = Parameters(dict(params) if params else {})
            c.add(name, obj)
            continue
        if len(specs) > 1:
            arg = [dec_value(sp, provider) for sp in specs]
            before = _copy.deepcopy(arg)
            c.add(name, arg)
            if _plain(arg) != _plain(before):
                ARG_MUTATIONS.append(f"add({name!r}, <list>) changed its argument: {before!r} -> {arg!r}"[:300])
        else:
            arg = dec_value(specs[0], provider)
            pa = dict(params) if params else None
            before, pbefore = _copy.deepcopy(arg), _copy.deepcopy(pa)
            c.add(name, arg, parameters=pa)
            if isinstance(arg, (list, dict, tuple)) and _plain(arg) != _plain(before):
                ARG_MUTATIONS.append(f"add({name!r}, <value>) changed its argument: {before!r} -> {arg!r}"[:300])
            if pa != pbefore:
                ARG_MUTATIONS.append(f"add({name!r}, ..., parameters=) changed the caller's dict: {pbefore!r} -> {pa!r}"[:300])
    for s in tree["s"]:
        c.add_component(build(s, provider, into=into))
    return c


def preorder(tree):
    yield tree
    for s in tree["s"]:
        yield from preorder(s)


# ----------------------------------------------------------------------------- extraction

def _dt_key(dt):
    if isinstance(dt, datetime):
        try:
            off = dt.utcoffset()
        except Exception as e:  # noqa: BLE001 - a zone object built from a broken VTIMEZONE may fail lazily (dateutil)
            return ("datetime", dt.replace(tzinfo=None).isoformat(), f"utcoffset-raises:{type(e).__name__}", None)
        zid = getattr(dt.tzinfo, "key", None) or getattr(dt.tzinfo, "zone", None) or getattr(dt.tzinfo, "_tzid", None) or (dt.tzname() if dt.tzinfo else None)
        return ("datetime", dt.replace(tzinfo=None).isoformat(), None if off is None else off.total_seconds(), zid)
    if isinstance(dt, date):
        return ("date", dt.isoformat())
    if isinstance(dt, timedelta):
        return ("td", dt.total_seconds())
    if isinstance(dt, time):
        return ("time", dt.isoformat())
    if isinstance(dt, tuple):
        return ("tuple",) + tuple(_dt_key(x) for x in dt)
    return ("other", repr(dt))


def value_key(v):
    """plain comparable description of one property value (class, parameters, wire form, decoded python value)"""
    params = getattr(v, "params", None)
    pk = tuple(sorted((str(k).upper(), tuple(map(str, x)) if isinstance(x, (list, tuple)) else str(x)) for k, x in params.items())) if params else ()
    try:
        wire = v.to_ical()
        wire = wire.decode("utf-8", "replace") if isinstance(wire, bytes) else str(wire)
    except Exception as e:  # noqa: BLE001
        wire = f"<to_ical raises {type(e).__name__}>"
    if hasattr(v, "dts"):
        dec = tuple(_dt_key(d.dt) for d in v.dts)
    elif hasattr(v, "dt"):
        dec = _dt_key(v.dt)
    elif hasattr(v, "td"):
        dec = _dt_key(v.td)
    elif hasattr(v, "cats"):
        dec = tuple(str(c) for c in v.cats)
    elif isinstance(v, vRecur):
        # exact shape (scalar vs list) matters for purity checks
        # part order is not part of the value (dict equality); C19 checks the order of the text
        dec = tuple(sorted((k, type(x).__name__, tuple(str.__str__(i) if isinstance(i, str) else str(i) for i in (x if isinstance(x, (list, tuple)) else [x])))
                           for k, x in v.items()))
    elif isinstance(v, (str, int, float)):
        dec = (type(v).__mro__[-2].__name__, str(v)) if not isinstance(v, str) else ("str", str(v))
    else:
        dec = None
    return (type(v).__name__, pk, wire, dec)


def snapshot(c):
    """Observable state of a tree WITHOUT calling any rendering method (for purity checks): classes, params, raw attributes."""
    props = []
    for k in c.keys():
        vals = c[k]
        many = isinstance(vals, list)
        row = []
        for v in (vals if many else [vals]):
            params = getattr(v, "params", None)
            pk = tuple((str(pk_), repr(pv)) for pk_, pv in params.items()) if params is not None else None
            if isinstance(v, dict):
                raw = ("dict", tuple((str(a), repr(b)) for a, b in v.items()))
            elif isinstance(v, (str, int, float)):
                raw = ("scalar", repr(str(v)) if isinstance(v, str) else repr(v))
            else:
                raw = ("attrs", tuple(sorted((a, repr(b) if not hasattr(b, "dt") else repr(b.dt)) for a, b in vars(v).items() if a != "params")))
                if hasattr(v, "dts"):
                    raw += (tuple((repr(d.dt), tuple((str(a), repr(b)) for a, b in d.params.items())) for d in v.dts),)
            row.append((type(v).__name__, pk, raw))
        props.append((str(k), many, tuple(row)))
    return (c.name, tuple(props), tuple(snapshot(s) for s in c.subcomponents), tuple(c.errors))


def extract(c):
    props = []
    for k in c.keys():
        vals = c[k]
        if not isinstance(vals, list):
            vals = [vals]
        props.append((str(k), tuple(value_key(v) for v in vals)))
    props.sort(key=lambda kv: kv[0])
    return (c.name, tuple(props), tuple(extract(s) for s in c.subcomponents))


# ----------------------------------------------------------------------------- strategies
_txt = st.one_of(st.sampled_from(["Meeting", "a", "Ünï cödé", "x y z", "semi;colon", "com,ma", "co:lon", "quote\"d", "new\nline", "", "100%", "q=is%3apr", "50%2c5", "%22quoted%22", "%5c"]),
                 st.text(alphabet=st.characters(blacklist_categories=("Cs", "Cc")), max_size=12))
_safe_txt = st.sampled_from(["Meeting", "a", "Ünï cödé", "x y z", "co:lon", "", "100%", "Team sync", "tag-1"])
_uri = st.sampled_from(["http://example.com/a", "mailto:a@example.com", "urn:uuid:1-2-3", "https://example.org/x?y=z#f", "CID:part1",
                        # URL-encoded characters are plain characters of a URI (lower-case forms; the four upper-case codes of RC-B stay out)
                        "https://example.com/login?next=https:%2f%2fexample.com%2fa%2cb", "cid:part%3aone", "https://example.org/search?q=%22exact%20phrase%22",
                        "file:///c:%5ctmp%5cnotes.txt", "https://example.org/a%3bb?c=%2F%20"])


def s_value(kind, safe_text=False):
    t = _safe_txt if safe_text else _txt
    if kind == "text":
        return t.map(lambda s: {"k": "text", "v": s})
    if kind == "int":
        return st.integers(0, 100000).map(lambda n: {"k": "int", "v": n})
    if kind == "float":
        return st.sampled_from([0.5, 1.25, -3.0]).map(lambda x: {"k": "float", "v": x})
    if kind == "date":
        return V.s_date
    if kind == "datetime":
        return V.s_datetime
    if kind == "utc":
        return V.s_utc
    if kind == "td":
        return V.s_td
    if kind == "period":
        return st.one_of(st.tuples(V.s_utc, st.integers(0, 100000)).map(lambda t: {"k": "period", "start": t[0], "dur": {"k": "td", "d": t[1] // 86400, "s": t[1] % 86400}}),
                         st.tuples(V.s_utc, st.integers(0, 3)).map(lambda t: {"k": "period", "start": t[0], "end": _later(t[0], t[1])}))
    if kind == "recur":
        return st.fixed_dictionaries({"FREQ": st.sampled_from(["DAILY", "WEEKLY", "MONTHLY", "YEARLY"])},
                                     optional={"COUNT": st.integers(1, 20), "INTERVAL": st.integers(1, 5),
                                               "BYDAY": st.lists(st.sampled_from(["MO", "TU", "-1SU", "2FR"]), min_size=1, max_size=2, unique=True),
                                               "BYMONTH": st.lists(st.integers(1, 12), min_size=1, max_size=2, unique=True),
                                               # every numeric rule part (each has its own entry in the library's type table)
                                               "BYWEEKNO": st.lists(st.sampled_from([1, 20, 53, -1]), min_size=1, max_size=2, unique=True),
                                               "BYYEARDAY": st.lists(st.sampled_from([1, 100, 366, -1]), min_size=1, max_size=2, unique=True),
                                               "BYMONTHDAY": st.lists(st.sampled_from([1, 15, 31, -1]), min_size=1, max_size=2, unique=True),
                                               "BYSETPOS": st.lists(st.sampled_from([1, -1, 3]), min_size=1, max_size=1),
                                               "BYHOUR": st.lists(st.sampled_from([0, 9, 23]), min_size=1, max_size=2, unique=True),
                                               "BYMINUTE": st.lists(st.sampled_from([0, 30, 59]), min_size=1, max_size=1),
                                               "BYSECOND": st.lists(st.sampled_from([0, 59]), min_size=1, max_size=1),
                                               "WKST": st.sampled_from(["MO", "SU"])}
                                     ).map(lambda d: {"k": "recur", "v": d})
    if kind == "geo":
        return st.tuples(st.sampled_from([37.386013, -45.5, 0.0]), st.sampled_from([-122.082932, 10.25, 179.5])).map(lambda t: {"k": "geo", "v": list(t)})
    if kind == "offset":
        return st.sampled_from([0, 3600, -18000, 19800, 37800, -34200]).map(lambda s: {"k": "offset", "s": s})
    if kind == "uri":
        return _uri.map(lambda s: {"k": "uri", "v": s})
    if kind == "caladdr":
        return st.sampled_from(["mailto:a@example.com", "MAILTO:b@example.org"]).map(lambda s: {"k": "caladdr", "v": s})
    if kind == "cats":
        return st.lists(t, min_size=1, max_size=3).map(lambda l: {"k": "cats", "v": l})
    if kind == "dates":
        return st.one_of(st.lists(V.s_utc, min_size=1, max_size=3), st.lists(V.s_naive, min_size=1, max_size=3),
                         st.tuples(st.sampled_from(V.ZONES), st.lists(V.s_naive, min_size=1, max_size=3)).map(
                             lambda t: [{"k": "zoned", "v": d["v"], "tz": t[0]} for d in t[1]])).map(lambda l: {"k": "dates", "v": l})
    if kind == "dates-date":
        return st.lists(V.s_date, min_size=1, max_size=3).map(lambda l: {"k": "dates", "v": l})
    if kind == "periods":
        return st.lists(s_value("period"), min_size=1, max_size=2).map(lambda l: {"k": "periods", "v": l})
    raise ValueError(kind)



_s_until_zero_offset = st.tuples(st.sampled_from([(2024, 1, 10), (2024, 7, 10), (1999, 12, 31)]), V._hms,
                                 st.sampled_from(["Europe/London", "Europe/Lisbon", "Africa/Abidjan", "Atlantic/Reykjavik", "Etc/GMT", "Etc/UTC"])
                                 ).map(lambda t: {"k": "zoned", "v": list(t[0]) + list(t[1]), "tz": t[2]})


# UNTIL as an API user may give it (C02 only: in text an UNTIL has no zone): every kind; the zoned ones include zones standing at
# offset zero (a zero timedelta is falsy, a zone at +00:00 is still not "UTC")
s_until = st.one_of(V.s_date, V.s_naive, V.s_utc, V.s_zoned, _s_until_zero_offset)


def _later(x, days):
    v = list(x["v"])
    v[0] += days + 0
    v[3] = min(23, v[3] + 1) if days == 0 and v[3] < 23 else v[3]
    return dict(x, v=v)


_token = st.lists(st.sampled_from(list("abcxyzABC019-")), min_size=1, max_size=8).map("".join)
_param = st.dictionaries(st.sampled_from(["X-P", "LANGUAGE", "X-Other", "CN", "ROLE"]),
                         st.one_of(st.sampled_from(["en", "de-AT", "Chair Person", "a;b", "c,d", "x:y", "name\tplace", "\tlead", "", "a=b", "it's", "50%", "caf\u00e9"]),
                                   st.lists(st.sampled_from(["p", "q r", "s,t", "u\tv", ""]), min_size=2, max_size=3)),
                         max_size=2)


@st.composite
def s_prop(draw, safe_text=False, with_params=True, names=None):
    if names is None and draw(st.integers(0, 4)) == 0:
        # free extension names, and the X- names the library itself knows or treats specially somewhere
        name = draw(st.one_of(_token.map(lambda t: "X-" + t), st.sampled_from(["X-COMMENT", "X-WR-CALNAME", "X-WR-TIMEZONE", "X-MOZ-GENERATION", "X-LIC-LOCATION", "X-ALT-DESC",
                                                                                "X-MICROSOFT-CDO-BUSYSTATUS", "X-APPLE-STRUCTURED-LOCATION", "X-PUBLISHED-TTL"])))
        kind = "text"
    else:
        name = draw(st.sampled_from(sorted(names or RFC_PROPS)))
        default, alts = RFC_PROPS[name]
        kind = draw(st.sampled_from([default] * 3 + list(a for a in alts if a != "binary"))) if alts else default
    name = {0: name, 1: name.lower(), 2: name.title()}[draw(st.integers(0, 2))]
    p = [name, draw(s_value(kind, safe_text))]
    if with_params and draw(st.integers(0, 3)) == 0:
        p.append(draw(_param))
    return p


@st.composite
def s_tree(draw, depth=3, fanout=3, safe_text=False, root=None, with_params=True):
    name = root or draw(st.sampled_from(KNOWN_COMPONENTS + ["X-CUSTOM", "VUNKNOWN", "X-" + draw(_token)]))
    props = draw(st.lists(s_prop(safe_text, with_params), max_size=5))
    seen = set()
    out = []
    for p in props:
        u = p[0].upper()
        if u in seen and u not in MULTI_OK:
            continue
        seen.add(u)
        out.append(p)
    subs = []
    if depth > 0:
        subs = draw(st.lists(s_tree(depth - 1, fanout, safe_text, None, with_params), max_size=fanout))
    return {"c": name, "p": out, "s": subs}
