"""Shared runner for all property checks (see DESIGN.md §1).

A check module (checks/cNN_*.py) exposes

    ID, RULE, ASSUMPTIONS, LEVEL_TEXT
    streams(tier) -> list[Stream]
    judge(case)   -> list[Failure]          (never raises for a decodable case)
    info(case)    -> {"nontrivial": bool, "classes": [str]}
    REGIONS       -> {name: predicate(case) -> bool}     (known-finding input regions)
    REQUIRED_CLASSES -> [class names that must be reached (else exit 2)]

Cases are JSON-able values so that a replay file needs nothing but `judge`.
"""
from __future__ import annotations

import hashlib
import importlib
import json
import multiprocessing
import os
import signal
import sys
import time
import traceback
from collections import Counter
from dataclasses import dataclass, field
from typing import Any, Callable, Optional

VERIF = os.path.dirname(os.path.dirname(os.path.abspath(__file__)))
REPO = os.environ.get("VERIF_REPO", "/repo")
NPROC = int(os.environ.get("VERIF_NPROC", "16"))


# --------------------------------------------------------------------------- basic types

@dataclass
class Failure:
    clause: str        # which sentence of the property, e.g. "C07.property-path"
    signature: str     # root-cause key used for bucketing
    detail: str = ""


class CaseTimeout(BaseException):
    """Raised inside a case by the CPU-time watchdog (BaseException: not swallowed by `except Exception`)."""


@dataclass
class Stream:
    name: str
    kind: str                      # "enum" | "hyp" | "fixed" | "custom"
    n: int = 0                     # enum: size of the finite domain; hyp: examples per shard
    shards: int = 1
    fn: Optional[Callable] = None  # enum: fn(i)->case; hyp: fn()->strategy; fixed: fn()->list; custom: fn(ctx)->dict
    exhaustive: bool = False       # enum streams that cover a finite domain completely
    distinct_by_construction: bool = False
    timeout_s: float = 20.0        # CPU seconds per case (watchdog)


def canon(case) -> str:
    return json.dumps(case, sort_keys=True, ensure_ascii=True, separators=(",", ":"), default=str)


def digest(case) -> bytes:
    return hashlib.blake2b(canon(case).encode(), digest_size=8).digest()


def derive_seed(seed: int, *parts) -> int:
    h = hashlib.blake2b(repr((seed,) + parts).encode(), digest_size=8).digest()
    return int.from_bytes(h, "big") % (2 ** 63)


def judge_under_python_O(module_name, case, timeout=300):
    """configuration: judge the case in a child interpreter started with -O (assert statements compiled away)"""
    import subprocess
    p = subprocess.run([sys.executable, "-O", os.path.join(VERIF, "tools", "opt_child.py"), module_name], input=json.dumps(case).encode(),
                       stdout=subprocess.PIPE, stderr=subprocess.PIPE, env=dict(os.environ, VERIF_REPO=REPO, PYTHONHASHSEED="0"), timeout=timeout)
    if p.returncode != 0:
        raise RuntimeError(f"python -O child failed: {p.stderr.decode()[-500:]}")
    return [Failure(c, s_ + "/python-O", d) for c, s_, d in json.loads(p.stdout)]


def exc_signature(exc: BaseException) -> str:
    """(type, innermost icalendar frame) - root-cause key for escaped exceptions."""
    tb = traceback.extract_tb(exc.__traceback__)
    where = "?"
    for fr in tb:
        fn = fr.filename.replace("\\", "/")
        if "/icalendar/" in fn and "/verif/" not in fn:
            where = f"{os.path.basename(fn)}:{fr.name}"
    return f"{type(exc).__name__}@{where}"


# --------------------------------------------------------------------------- watchdog

def _on_alarm(signum, frame):
    raise CaseTimeout()


def install_watchdog():
    signal.signal(signal.SIGVTALRM, _on_alarm)


def arm(seconds: float):
    signal.setitimer(signal.ITIMER_VIRTUAL, seconds)


def disarm():
    signal.setitimer(signal.ITIMER_VIRTUAL, 0)


# --------------------------------------------------------------------------- shard execution

def _frame_depth():
    f, n = sys._getframe(), 0
    while f is not None:
        n += 1
        f = f.f_back
    return n


class Collector:
    MAX_SAMPLES = 4
    MAX_PER_BUCKET = 3

    def __init__(self, mod, stream: Stream, active=()):
        self.mod = mod
        self.stream = stream
        self.active = list(active)          # active known findings: dicts with id, clauses, region
        self.regions = getattr(mod, "REGIONS", {})
        self.excluded: Counter = Counter()
        self.excluded_sigs: Counter = Counter()
        self.nontrivial_outside_regions = 0
        self.evaluations = 0
        self.nontrivial = 0
        self.keys: set[bytes] = set()
        self.classes: Counter = Counter()
        self.buckets: dict[str, dict] = {}
        self.samples: list = []
        self.timeouts = 0
        self.harness_errors: list[str] = []

    def run_case(self, case):
        self.evaluations += 1
        try:
            inf = self.mod.info(case)
        except Exception as e:  # harness bug
            self.harness_errors.append(f"info() raised {e!r} on {canon(case)[:300]}")
            return
        w = int(inf.get("weight", 1))          # block cases stand for `weight` individual evaluations
        self.evaluations += w - 1
        for c in inf.get("classes", ()):
            self.classes[c] += w
        if inf.get("nontrivial"):
            self.nontrivial += int(inf.get("nontrivial_weight", w))
            if self.active and not self.in_any_region(case):
                self.nontrivial_outside_regions += 1
            if not self.stream.distinct_by_construction:
                self.keys.add(digest(case))
            if len(self.samples) < self.MAX_SAMPLES and (self.evaluations % 7 == 1 or self.evaluations < 3):
                self.samples.append(case)
        try:
            arm(self.stream.timeout_s)
            limit = sys.getrecursionlimit()
            try:
                # Hypothesis raises the interpreter's recursion limit while a test runs; the code under test must see what a
                # caller in a fresh interpreter sees (about 1000 frames from where it is called)
                sys.setrecursionlimit(_frame_depth() + 970)
                fails = self.mod.judge(case)
            finally:
                sys.setrecursionlimit(max(limit, _frame_depth() + 50))
                disarm()
        except CaseTimeout:
            self.timeouts += 1
            fails = list(getattr(self.mod, "on_timeout", lambda c: [])(case))
            self.classes["timeout-inconclusive" if not fails else "timeout-verdict"] += 1
        except Exception as e:
            self.harness_errors.append(
                f"judge() raised {type(e).__name__}: {e} on {canon(case)[:300]}\n{traceback.format_exc()[-1500:]}")
            return
        for f in fails:
            owner = self._owner(case, f)
            if owner:
                self.excluded[owner] += 1
                self.excluded_sigs[f"{owner}:{f.signature}"] += 1
                continue
            b = self.buckets.setdefault(f.signature, {"clause": f.clause, "count": 0, "cases": []})
            b["count"] += 1
            cs = b["cases"]
            entry = (len(canon(case)), case, f.detail)
            if len(cs) < self.MAX_PER_BUCKET:
                cs.append(entry)
                cs.sort(key=lambda e: e[0])
            elif entry[0] < cs[-1][0]:
                cs[-1] = entry
                cs.sort(key=lambda e: e[0])

    def _owner(self, case, f):
        for fd in self.active:
            if f.clause in fd["clauses"]:
                try:
                    if self.regions[fd["region"]](case):
                        return fd["id"]
                except Exception as e:  # noqa: BLE001
                    self.harness_errors.append(f"region {fd['region']} raised {e!r}")
        return None

    def in_any_region(self, case):
        for fd in self.active:
            try:
                if self.regions[fd["region"]](case):
                    return True
            except Exception:  # noqa: BLE001
                return True
        return False

    def result(self):
        return {
            "excluded": self.excluded,
            "excluded_sigs": self.excluded_sigs,
            "nontrivial_outside_regions": self.nontrivial_outside_regions,
            "stream": self.stream.name,
            "evaluations": self.evaluations,
            "nontrivial": self.nontrivial,
            "keys": self.keys,
            "classes": self.classes,
            "buckets": self.buckets,
            "samples": self.samples,
            "timeouts": self.timeouts,
            "harness_errors": self.harness_errors[:5],
        }


def _run_shard(args):
    modname, tier, seed, si, shard, active = args
    try:
        install_watchdog()
        mod = importlib.import_module(modname)
        stream = mod.streams(tier)[si]
        col = Collector(mod, stream, active)
        if stream.kind == "enum":
            lo = stream.n * shard // stream.shards
            hi = stream.n * (shard + 1) // stream.shards
            for i in range(lo, hi):
                col.run_case(stream.fn(i))
        elif stream.kind == "fixed":
            cases = stream.fn()
            for i in range(shard, len(cases), stream.shards):
                col.run_case(cases[i])
        elif stream.kind == "hyp":
            _run_hyp(col, stream, derive_seed(seed, mod.ID, stream.name, shard))
        elif stream.kind == "custom":
            ctx = {"tier": tier, "seed": derive_seed(seed, mod.ID, stream.name, shard), "shard": shard,
                   "shards": stream.shards, "collector": col}
            stream.fn(ctx)
        else:
            raise ValueError(stream.kind)
        return col.result()
    except BaseException as e:  # noqa: BLE001 - report as harness error
        return {"excluded": Counter(), "excluded_sigs": Counter(), "nontrivial_outside_regions": 0,
                "stream": f"{modname}[{si}/{shard}]", "evaluations": 0, "nontrivial": 0, "keys": set(),
                "classes": Counter(), "buckets": {}, "samples": [], "timeouts": 0,
                "harness_errors": [f"shard crashed: {type(e).__name__}: {e}\n{traceback.format_exc()[-2500:]}"]}


def _run_hyp(col: Collector, stream: Stream, seed: int):
    import hypothesis
    from hypothesis import HealthCheck, Phase, given, settings

    strat = stream.fn()

    @hypothesis.seed(seed)
    @settings(max_examples=stream.n, database=None, deadline=None, derandomize=False,
              report_multiple_bugs=False, phases=[Phase.generate],
              suppress_health_check=[HealthCheck.too_slow, HealthCheck.data_too_large,
                                     HealthCheck.large_base_example])
    @given(strat)
    def t(case):
        col.run_case(case)

    t()


# --------------------------------------------------------------------------- shrinking (structural, on JSON)

SHRINK_STRINGS = True


def _candidates(x):
    """Smaller variants of a JSON value, most aggressive first."""
    if isinstance(x, list):
        n = len(x)
        if n:
            k = n // 2
            while k >= 1:
                for i in range(0, n, k):
                    yield x[:i] + x[i + k:]
                k //= 2
        for i, v in enumerate(x):
            for c in _candidates(v):
                yield x[:i] + [c] + x[i + 1:]
    elif isinstance(x, dict):
        for key in list(x):
            v = x[key]
            for c in _candidates(v):
                d = dict(x)
                d[key] = c
                yield d
    elif isinstance(x, str):
        n = len(x) if SHRINK_STRINGS else 0
        if n:
            k = n // 2
            while k >= 1:
                for i in range(0, n, k):
                    yield x[:i] + x[i + k:]
                k //= 2
            for i, ch in enumerate(x):
                if ch not in "a0" and (ch.isalpha() or ord(ch) > 127):
                    yield x[:i] + "a" + x[i + 1:]
    elif isinstance(x, bool):
        if x:
            yield False
    elif isinstance(x, int):
        if x:
            yield 0
            if abs(x) > 1:
                yield x // 2
                yield x - (1 if x > 0 else -1)
    elif isinstance(x, float):
        if x:
            yield 0.0
            yield float(int(x))


def shrink(case, still_fails: Callable[[Any], bool], budget_s: float):
    t0 = time.time()
    best = case
    improved = True
    tried = 0
    while improved and time.time() - t0 < budget_s:
        improved = False
        for cand in _candidates(best):
            if time.time() - t0 > budget_s:
                break
            tried += 1
            if len(canon(cand)) >= len(canon(best)) and cand != best and not isinstance(cand, (int, float)):
                pass
            try:
                ok = still_fails(cand)
            except BaseException:  # noqa: BLE001 - malformed shrunk case
                ok = False
            if ok:
                best = cand
                improved = True
                break
    return best, tried


# --------------------------------------------------------------------------- known findings

def load_findings(pid: str):
    path = os.path.join(VERIF, "known_findings.json")
    if not os.path.exists(path):
        return []
    with open(path) as f:
        data = json.load(f)
    return [e for e in data.get("findings", []) if e.get("property") == pid]


def judge_guarded(mod, case, timeout_s=None):
    install_watchdog()
    timeout_s = timeout_s or getattr(mod, "TIMEOUT_S", 30.0)
    try:
        arm(timeout_s)
        try:
            return mod.judge(case)
        finally:
            disarm()
    except CaseTimeout:
        return list(getattr(mod, "on_timeout", lambda c: [])(case))


# --------------------------------------------------------------------------- main

def run_check(modname: str, tier: str, seed: int, replay: Optional[str] = None) -> int:
    t0 = time.time()
    mod = importlib.import_module(modname)
    pid = mod.ID
    import icalendar
    if not os.path.abspath(icalendar.__file__).startswith(os.path.abspath(REPO) + os.sep):
        print(f"HARNESS-ERROR: icalendar imported from {icalendar.__file__}, expected under {REPO}")
        return 2

    if replay:
        with open(replay) as f:
            rec = json.load(f)
        case = rec["case"] if isinstance(rec, dict) and "case" in rec else rec
        fails = judge_guarded(mod, case)
        for fl in fails:
            print(f"replay: clause={fl.clause} signature={fl.signature} detail={fl.detail[:400]}")
        if fails:
            print(f"VIOLATION property={pid} replay={replay}")
            return 1
        print("replay: no failure")
        return 0

    os.makedirs(os.path.join(VERIF, "replays"), exist_ok=True)
    os.makedirs(os.path.join(VERIF, "evidence"), exist_ok=True)
    violations: list[tuple[str, str]] = []   # (signature, replay path)
    harness_errors: list[str] = []

    # 1. regressions (committed shrunk cases of fixed defects and sensitivity witnesses): must pass
    regdir = os.path.join(VERIF, "regressions", pid)
    n_reg = 0
    if os.path.isdir(regdir):
        for fn in sorted(os.listdir(regdir)):
            if not fn.endswith(".json"):
                continue
            with open(os.path.join(regdir, fn)) as f:
                rec = json.load(f)
            n_reg += 1
            fails = judge_guarded(mod, rec["case"])
            if fails:
                violations.append((f"regression:{fn}:{fails[0].signature}", os.path.join(regdir, fn)))

    # 2. known findings: witness replay decides which regions are active
    findings = load_findings(pid)
    active = []
    finding_report = []
    for fd in findings:
        still = []
        for w in fd.get("witnesses", []):
            fails = judge_guarded(mod, w["case"])
            hit = [fl for fl in fails if fl.clause in fd["clauses"]]
            if hit:
                still.append((w, hit[0]))
        if fd["status"] == "open":
            if still:
                active.append(fd)
                print(f"KNOWN-FINDING: property={pid} {fd['id']}: {fd['title']} "
                      f"[{len(still)}/{len(fd.get('witnesses', []))} witnesses fail, e.g. {still[0][1].detail[:160]}]")
            finding_report.append({"id": fd["id"], "status": "open", "active": bool(still)})
        else:  # fixed: suppresses nothing, a failing witness is a regression
            if still:
                path = _write_replay(pid, f"fixed-{fd['id']}", still[0][0]["case"], still[0][1], seed, tier)
                violations.append((f"fixed-finding-returned:{fd['id']}", path))
            finding_report.append({"id": fd["id"], "status": "fixed", "commit": fd.get("commit"),
                                   "witness_fails": bool(still)})

    # 3. generated search
    streams = mod.streams(tier)
    active_slim = [{"id": fd["id"], "clauses": fd["clauses"], "region": fd["region"]} for fd in active]
    jobs = []
    for si, st in enumerate(streams):
        for sh in range(st.shards):
            jobs.append((modname, tier, seed, si, sh, active_slim))
    ctx = multiprocessing.get_context("fork")
    results = []
    with ctx.Pool(min(NPROC, max(1, len(jobs)))) as pool:
        for r in pool.imap_unordered(_run_shard, jobs, chunksize=1):
            results.append(r)

    evaluations = sum(r["evaluations"] for r in results)
    classes = Counter()
    keys: set[bytes] = set()
    distinct_nt = 0
    per_stream = {}
    samples = []
    timeouts = 0
    buckets: dict[str, dict] = {}
    by_name = {st.name: st for st in streams}
    for r in results:
        classes.update(r["classes"])
        timeouts += r["timeouts"]
        harness_errors.extend(r["harness_errors"])
        st = by_name.get(r["stream"])
        ps = per_stream.setdefault(r["stream"], {"evaluations": 0, "nontrivial": 0})
        ps["evaluations"] += r["evaluations"]
        ps["nontrivial"] += r["nontrivial"]
        if st is not None:
            ps["exhaustive"] = bool(st.exhaustive)
            if st.distinct_by_construction:
                distinct_nt += r["nontrivial"]
        keys |= r["keys"]
        for s in r["samples"]:
            if len(samples) < 12:
                samples.append({"stream": r["stream"], "case": s})
        for sig, b in r["buckets"].items():
            mb = buckets.setdefault(sig, {"clause": b["clause"], "count": 0, "cases": []})
            mb["count"] += b["count"]
            mb["cases"].extend(b["cases"])
            mb["cases"].sort(key=lambda e: e[0])
            del mb["cases"][6:]
    distinct_nt += len(keys)

    # attribution to active known findings happened in the shards (input-region predicates, per failure)
    excluded = Counter()
    excluded_sigs = Counter()
    nt_outside = 0
    for r in results:
        excluded.update(r["excluded"])
        excluded_sigs.update(r["excluded_sigs"])
        nt_outside += r["nontrivial_outside_regions"]
    unattributed = buckets

    budget = 25.0 if tier == "quick" else 120.0
    regions_parent = getattr(mod, "REGIONS", {})
    global SHRINK_STRINGS
    SHRINK_STRINGS = bool(getattr(mod, "SHRINK_STRINGS", False))   # tag-like strings must not be mangled by default
    for sig, b in sorted(unattributed.items()):
        ln, case, detail = b["cases"][0]

        def still_fails(c, sig=sig):
            # the shrunk case must keep the signature AND stay outside the regions of active known findings, otherwise the
            # replay file would show an attributed case instead of the violation
            for fl in judge_guarded(mod, c, 10.0):
                if fl.signature != sig:
                    continue
                owned = False
                for fd in active:
                    if fl.clause in fd["clauses"]:
                        try:
                            owned = owned or bool(regions_parent[fd["region"]](c))
                        except Exception:  # noqa: BLE001
                            owned = True
                if not owned:
                    return True
            return False
        try:
            small, tried = shrink(case, still_fails, budget)
        except BaseException as e:  # noqa: BLE001
            small, tried = case, 0
        fl = next((f for f in judge_guarded(mod, small) if f.signature == sig), Failure(b["clause"], sig, detail))
        path = _write_replay(pid, sig, small, fl, seed, tier)
        violations.append((sig, path))
        print(f"failure bucket: clause={fl.clause} signature={sig} count={b['count']} detail={fl.detail[:300]}")
        budget = max(5.0, budget / 2)

    # required classes (generator must reach the shapes named in the quantifier)
    missing = [c for c in getattr(mod, "REQUIRED_CLASSES", []) if classes.get(c, 0) == 0]
    if missing:
        harness_errors.append(f"generator never produced required classes: {missing}")

    wall = time.time() - t0
    evidence = {
        "property_id": pid,
        "tier": tier,
        "seed": seed,
        "level": "exploration",
        "coverage": {
            "evaluations": evaluations + n_reg,
            "distinct_nontrivial": distinct_nt,
            "rule": mod.RULE,
            "samples": samples[:10],
            "exhaustive": False,
            "streams": per_stream,
            "classes": dict(sorted(classes.items())),
            "timeouts_inconclusive": timeouts,
            "regressions_replayed": n_reg,
            "known_findings": finding_report,
            "excluded_by_known_finding": dict(excluded),
            "excluded_signatures": dict(excluded_sigs),
            "nontrivial_cases_outside_active_regions": nt_outside if active else None,
            "failure_buckets": {s: {"clause": b["clause"], "count": b["count"]} for s, b in buckets.items()},
            "exhaustive_substreams": sorted(n for n, p in per_stream.items() if p.get("exhaustive")),
        },
        "assumptions": list(getattr(mod, "ASSUMPTIONS", [])),
        "wall_s": round(wall, 2),
        "violations": len(violations),
    }
    if harness_errors:
        evidence["coverage"]["harness_errors"] = harness_errors[:5]
    ev_path = os.path.join(VERIF, "evidence", f"{pid}.json")
    if os.environ.get("VERIF_NO_EVIDENCE") == "1":      # mutant self-test runs must not overwrite real evidence
        ev_path = os.path.join(VERIF, "replays", f"{pid}.mutant-evidence.json")
    with open(ev_path, "w") as f:
        json.dump(evidence, f, indent=1, default=str, ensure_ascii=True)
    schema_err = _validate_evidence(evidence)
    if schema_err:
        harness_errors.append(f"evidence schema: {schema_err}")

    print(f"{pid} tier={tier} seed={seed} evaluations={evaluations} distinct_nontrivial={distinct_nt} "
          f"timeouts={timeouts} excluded_by_known_finding={dict(excluded)} wall={wall:.1f}s")
    if violations:
        for sig, path in violations:
            print(f"VIOLATION property={pid} replay={path}")
        return 1
    if harness_errors:
        for h in harness_errors[:5]:
            print("HARNESS-ERROR:", h)
        return 2
    return 0


def _write_replay(pid, sig, case, fl: Failure, seed, tier) -> str:
    safe = "".join(ch if ch.isalnum() or ch in "-_." else "_" for ch in sig)[:80]
    path = os.path.join(VERIF, "replays", f"{pid}-{safe}.json")
    with open(path, "w") as f:
        json.dump({"property": pid, "clause": fl.clause, "signature": fl.signature, "detail": fl.detail[:2000],
                   "case": case, "seed": seed, "tier": tier}, f, indent=1, default=str)
    return path


def _validate_evidence(ev) -> Optional[str]:
    # own minimal validation + jsonschema when the schema file is available
    cov = ev["coverage"]
    if cov["evaluations"] < 1 or cov["distinct_nontrivial"] < 2 or not cov["samples"]:
        return "too few cases (evaluations/distinct_nontrivial/samples)"
    for p in ("/root/.vp/EVIDENCE.schema.json", os.path.join(VERIF, "vlib", "EVIDENCE.schema.json")):
        if os.path.exists(p):
            try:
                import jsonschema
                with open(p) as f:
                    schema = json.load(f)
                jsonschema.validate(json.loads(json.dumps(ev, default=str)), schema)
            except ImportError:
                return None
            except Exception as e:  # noqa: BLE001
                return str(e)[:300]
            return None
    return None
