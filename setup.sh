#!/bin/sh
# Offline setup: third-party harness deps into /verif/.deps (never touches /venv or /repo).
set -e
cd "$(dirname "$0")"
WH=/opt/veriftools/wheels
PY=/venv/bin/python
mkdir -p .deps evidence replays
need=""
for m in hypothesis jsonschema atheris; do
  PYTHONPATH=.deps $PY -c "import $m" 2>/dev/null || need="$need $m"
done
if [ -n "$need" ]; then
  PIP_NO_INDEX=1 $PY -m pip install --quiet --no-index --find-links $WH --target .deps --upgrade $need
fi
PYTHONPATH=.deps $PY -c "import hypothesis, jsonschema; print('deps ok', hypothesis.__version__)"
PYTHONPATH=.deps $PY -c "import atheris; print('atheris ok')" || echo "atheris unavailable (thorough fuzz streams will be skipped)"
